"""C10 — conditions decide what their names say; And/Or/Not evaluate every operand once."""
import itertools
import re
import math

from core import expr_str, strip, subexprs, AnchorMissing
from kinds import origin
from absint import Interp, Sym, Agg, Ref, HRef, TOP, some, NONE, ok, err, std_oracle, chain
from collmodel import coll_oracle, Vec, install, load, new_vec, It

EXPLANATION = (
    "Every condition's evaluate() is a few comparisons; each is decided by finite-domain abstract interpretation (K6) "
    "of its MIR with the lens / state accessors answered by the scenario: LessThanN over value in {n-1, n, n+1}: "
    "true iff value < n, Progress<L> set to value/n before returning, init inserts Progress::default(); EveryN over "
    "all value in 0..3n for n in 1..3: true iff value % n == 0; OptimumReached over {no best, best below / at / above "
    "optimum+epsilon}: true iff a best exists and is within epsilon, constructor rejects epsilon < 0; ChangeOf over "
    "{no previous, previous equal, previous different} by the checker: true iff no previous or NOT equal, and the "
    "remembered value is overwritten exactly when it reports a change; both EqualityChecker implementations answer "
    "`true` for equal inputs (same polarity; delta checker: |a-b| < threshold in both argument orders); RandomChance "
    "returns gen_bool(self.p) of the state's generator; And/Or over 0..3 operands with every outcome vector: each "
    "operand's evaluate is called exactly once and the result is all()/any(); Not negates. The loop counter is "
    "decided in C03.R3. (INIT) init() evaluated with every field of self a distinct symbol inserts exactly the state types of a reviewed table, under the component's own instantiation, each built from exactly the documented field or empty / zero. (R8) ValueOf<T> / IdLens<T>: get_ref / get_mut hand out the registry's guard for the lens' own T, get a clone of it, a missing T is an Err; assign stores through get_mut; PopulationSizeLens is the size of the TOP population. (R9) the loop shapes `init; while { body }` and `init; while { ..; scope { while { .. } }; .. }` make exactly the scripted passes, each loop on its own counter (bounded program semantics of C03 on Configuration::run). NOT decided: the probability of RandomChance, exact pass counts for arbitrary lenses.")
EXPLANATION += " " + '(R1/R3/R4/R8 revised) LessThanN, OptimumReached, ChangeOf and the ValueOf / IdLens lenses are evaluated over the typed store (K19): the progress / the remembered value the state HOLDS afterwards, the real State::best_* sugar on a BestIndividual that holds an individual, is empty, or is absent; lenses hand out exactly (the inner value of) their own T.'
ASSUMPTIONS = ["lenses return the value they are named for (lens wiring is checked where a property names it)"]

CC = "mahf::conditions::common::"
COND = "mahf::conditions::Condition"


def mk_oracle(table):
    """table: callee key -> function(interp, env, f, args) or constant (sibling accessors of the state registry are
    aliased by absint.chain)"""
    def oracle(interp, env, f, args, t, bb, path):
        for k in (f.get("resolved", {}).get("key"), f.get("key")):
            if k in table:
                v = table[k]
                return v(interp, env, f, args) if callable(v) else v
        return TOP
    return oracle


def run_fn(F, fn, args, table, extra_env=None, init_state=None, inline=None):
    it = install(Interp(fn.body, chain(mk_oracle(table), coll_oracle, std_oracle), args, facts=F, inline=inline or (lambda k: k.startswith("mahf::problems::objective::") or k.startswith("<mahf::problems::objective::")), max_visits=10))
    it.extra_env = extra_env or {}
    it.init_state = init_state or {}
    return it.run()


def r1_less_than_n(ctx):
    """K6 over the typed store: the answer is `value < n`, and afterwards the Progress<L> the state holds is value / n
    (whichever accessor wrote it); without a Progress in the state the answer is the same and nothing is inserted"""
    import statemodel
    import initspec
    F = ctx.facts
    adt = CC + "LessThanN"
    fn = F.method(adt, "evaluate", COND)
    ni, li = F.field_index(adt, "n"), F.field_index(adt, "lens")
    PROG = "mahf::state::common::Progress<"
    bad = []
    cnt = 0
    # bounds of either sign and both zeros (float / signed lens targets): the answer is `value < n`, whatever value / n is
    for n, v in [(4.0, 3.0), (4.0, 4.0), (4.0, 5.0), (1.0, 0.0), (-2.0, -3.0), (-2.0, -2.0), (-1.0, 4.0), (-0.0, -1.0), (0.0, 0.0), (-0.0, 1.0)]:
        for present in (True, False):
            me = Sym("self", {ni: n, li: Sym("lens")})
            store = statemodel.Store(F, levels=1)
            store.auto = lambda ty, present=present, store=store: ({0: statemodel.shaped(F, ty, "old-progress", store.heap)} if present else {}) if ty.startswith(PROG) else None
            inl = lambda k: statemodel.inline(k) or k.startswith("mahf::problems::objective::") or k.startswith("<mahf::problems::objective::")
            it = install(Interp(fn.body, chain(mk_oracle({"mahf::lens::Lens::get": ok(v)}), store, coll_oracle, std_oracle), [me, Sym("problem"), Sym("state")], facts=F, inline=inl, max_visits=10))
            it.init_state = {}
            store.install(it)
            paths = it.run()
            cnt += 1
            where = "with a Progress in the state" if present else "without a Progress in the state"
            if len(paths) != 1:
                bad.append((v, n, "%s is not decided (%d paths)" % (where, len(paths))))
                continue
            p = paths[0]
            if p.end != "return" or not (isinstance(p.ret, Agg) and p.ret.variant == "Ok"):
                bad.append((v, n, "%s does not return Ok (%s %s)" % (where, p.end, p.ret)))
                continue
            if p.ret.fields[0] is not (v < n):
                bad.append((v, n, "%s answers %s" % (where, p.ret.fields[0])))
            tys = [ty for ty in store.types() if ty.startswith(PROG)]
            held = [ty for ty in tys if store.holders(p, ty)]
            if present:
                got = [initspec.leaves(p.mstate, store.value(p, ty, 0)) for ty in held]
                try:
                    want_p = v / n
                except ZeroDivisionError:
                    want_p = (float("nan") if v == 0 else math.copysign(float("inf"), v) * math.copysign(1.0, n))
                same = len(got) == 1 and len(got[0]) == 1 and isinstance(got[0][0], float) and (got[0][0] == want_p or (got[0][0] != got[0][0] and want_p != want_p))
                if not same:
                    bad.append((v, n, "%s leaves the progress %s instead of value/n = %s" % (where, got, want_p)))
            elif held:
                bad.append((v, n, "%s inserts one" % where))
    ctx.count("less_than_n_scenarios", cnt)
    ctx.check(not bad, "C10.R1", fn.key, "true-iff-below-n", "value %s, n %s: LessThanN %s" % (bad[0] if bad else ("", "", "")), detail="value in {n-1, n, n+1}", loc=fn.loc())


def r2_every_n(ctx):
    F = ctx.facts
    adt = CC + "EveryN"
    fn = F.method(adt, "evaluate", COND)
    ni, li = F.field_index(adt, "n"), F.field_index(adt, "lens")
    bad = []
    cnt = 0
    for n in (1, 2, 3):
        for v in range(0, 3 * n + 1):
            me = Sym("self", {ni: n, li: Sym("lens")})
            cnt += 1
            for p in run_fn(F, fn, [me, Sym("problem"), Sym("state")], {"mahf::lens::Lens::get": ok(v)}):
                if p.end != "return" or not (isinstance(p.ret, Agg) and p.ret.variant == "Ok") or p.ret.fields[0] is not (v % n == 0):
                    bad.append((v, n, "%s %s" % (p.end, p.ret)))
    ctx.check(not bad, "C10.R2", fn.key, "true-on-multiples", "value %s, n %s: EveryN yields %s" % (bad[0] if bad else ("", "", "")), detail="%d (value, n) pairs" % cnt, loc=fn.loc())


def r3_optimum_reached(ctx):
    """K6 over the typed store: the state holds a BestIndividual with an individual, an empty one, or none at all (the
    real State::best_* sugar is followed); the answer is `a best value exists and is within epsilon of the optimum`"""
    import statemodel
    import c07
    F = ctx.facts
    adt = CC + "OptimumReached"
    fn = F.method(adt, "evaluate", COND)
    ei = F.field_index(adt, "epsilon")
    SO = "mahf::problems::objective::single::SingleObjective"
    BESTT = "mahf::state::common::BestIndividual"
    bad = []
    cnt = 0
    for best, opt, eps in [(None, 1.0, 0.5), ("absent", 1.0, 0.5), (1.0, 1.0, 0.5), (1.5, 1.0, 0.5), (1.75, 1.0, 0.5), (0.0, 1.0, 0.0), (1.0, 1.0, 0.0), (1.25, 1.0, 0.0)]:
        me = Sym("self", {ei: eps})
        ind = None if best in (None, "absent") else Agg("adt", c07.IND, "Individual", [Sym("s:best"), some(Agg("adt", SO, "SingleObjective", [best]))])
        cellv = statemodel.ABSENT if best == "absent" else Agg("adt", BESTT, "BestIndividual", [some(ind) if ind is not None else NONE])
        store = statemodel.Store(F, levels=1, auto=lambda ty, cellv=cellv: {0: cellv} if ty.startswith(BESTT + "<") else None)
        table = {"mahf::problems::KnownOptimumProblem::known_optimum": Agg("adt", SO, "SingleObjective", [opt])}
        want = ind is not None and best <= opt + eps
        it = install(Interp(fn.body, chain(mk_oracle(table), store, coll_oracle, std_oracle), [me, Sym("problem"), Sym("state")], facts=F,
                            inline=lambda k: statemodel.inline(k) or c07.INLINE(k), max_visits=10))
        it.init_state = {}
        store.install(it)
        cnt += 1
        for p in it.run():
            if p.end != "return" or not (isinstance(p.ret, Agg) and p.ret.variant == "Ok") or p.ret.fields[0] is not want:
                bad.append(({None: "none recorded yet", "absent": "not tracked at all"}.get(best, best), opt, eps, "%s %s (expected %s)" % (p.end, p.ret, want)))
    ctx.count("optimum_scenarios", cnt)
    ctx.check(not bad, "C10.R3", fn.key, "true-iff-best-within-epsilon", "best %s, optimum %s, epsilon %s: %s" % (bad[0] if bad else ("", "", "", "")), loc=fn.loc())
    fp = F.fn(adt + "::from_params")
    res = {}
    for eps in (-1.0, -0.0, 0.0, 0.5):
        outs = set()
        for p in run_fn(F, fp, [eps], {}):
            if p.end == "return" and isinstance(p.ret, Agg):
                outs.add(p.ret.variant)
            else:
                outs.add(p.end)
        res[eps] = outs
    ctx.check(res[-1.0] == {"Err"} and res[0.0] == {"Ok"} and res[0.5] == {"Ok"}, "C10.R3", fp.key, "rejects-negative-epsilon", "from_params accepts/rejects: %s" % res, detail=str(res), loc=fp.loc())


def r4_change_of(ctx):
    """K6 over the typed store: the Previous<..> the state holds is empty / remembers `p`; the checker's answer is
    scripted.  true iff nothing is remembered or the checker says `different`; afterwards the state remembers the current
    value exactly when the answer was true (the value it last REPORTED), else still `p`."""
    import statemodel
    F = ctx.facts
    adt = CC + "ChangeOf"
    fn = F.method(adt, "evaluate", COND)
    ci, li = F.field_index(adt, "checker"), F.field_index(adt, "lens")
    PREV = CC + "Previous"
    bad = []
    for prev, equal in [(None, None), ("p", True), ("p", False)]:
        me = Sym("self", {ci: Sym("checker", boxlike=True), li: Sym("lens")})
        calls = []

        def eqf(interp, env, f, args, equal=equal):
            calls.append([load(interp, env, a) for a in args[1:]])
            return equal if equal is not None else TOP
        table = {"mahf::lens::LensRef::get_ref": ok(Sym("cur")), CC + "EqualityChecker::eq": eqf}
        cellv = Agg("adt", PREV, "Previous", [NONE if prev is None else some(Sym(prev))])
        store = statemodel.Store(F, levels=1, auto=lambda ty, cellv=cellv: {0: cellv} if ty.startswith(PREV + "<") else None)
        it = install(Interp(fn.body, chain(mk_oracle(table), store, coll_oracle, std_oracle), [me, Sym("problem"), Sym("state")], facts=F,
                            inline=lambda k: statemodel.inline(k) or k.startswith(CC) or k.startswith("<" + CC), max_visits=10))
        it.init_state = {}
        store.install(it)
        paths = it.run()
        want = True if prev is None else (not equal)
        for p in paths:
            if p.end != "return" or not (isinstance(p.ret, Agg) and p.ret.variant == "Ok") or p.ret.fields[0] is not want:
                bad.append((prev, equal, "answers %s %s (expected %s)" % (p.end, p.ret, want)))
                continue
            tys = [ty for ty in store.types() if ty.startswith(PREV + "<")]
            after = store.value(p, tys[0], 0) if tys else None
            inner = after.fields[0] if isinstance(after, Agg) and after.fields else None
            tag = inner.fields[0].tag if isinstance(inner, Agg) and inner.variant == "Some" and isinstance(inner.fields[0], Sym) else None
            want_tag = "cur" if want else prev
            if tag != want_tag:
                bad.append((prev, equal, "remembers %s afterwards (expected %s: the value it last reported)" % (tag, want_tag)))
        if prev is not None:
            tags = [sorted(getattr(x, "tag", "?") for x in c) for c in calls]
            if tags != [["cur", "p"]] * len(tags) or not tags:
                bad.append((prev, equal, "compares %s instead of the current value with the remembered one" % tags))
    names = {None: "no previous value", True: "previous value equal", False: "previous value different"}
    ctx.check(not bad, "C10.R4", fn.key, "true-iff-changed", "%s: ChangeOf %s" % (names[bad[0][1]] if bad else "", bad[0][2] if bad else ""), detail="3 scenarios", loc=fn.loc())
    # sibling cross-check: every EqualityChecker answers true for equal inputs
    impls = [f for f in F.all_fns if f.impl_trait == CC + "EqualityChecker" and f.name == "eq"]
    ctx.floor("C10.R4", "EqualityChecker implementations", len(impls), 2)
    for f in impls:
        ti = None
        if f.impl_self_adt and F.adts.get(f.impl_self_adt, {}).get("variants", [{}])[0].get("fields"):
            ti = 0
        cases = [(5, 5, True), (5, 6, True), (6, 5, True), (5, 9, False), (9, 5, False)] if ti is not None else [(5, 5, True), (5, 9, False)]
        badc = []
        for a, b, want in cases:
            me = Sym("self", {0: 2}) if ti is not None else Sym("self")
            if ti is None:
                want = (a == b)
            for p in run_fn(F, f, [me, a, b], {}):
                if p.end != "return" or p.ret is not want:
                    badc.append((a, b, "%s %s, expected %s" % (p.end, p.ret, want)))
        ctx.check(not badc, "C10.R4", f.key, "eq-means-equal", "eq(%s, %s)%s yields %s" % (badc[0][0] if badc else "", badc[0][1] if badc else "", " with threshold 2" if ti is not None else "", badc[0][2] if badc else ""), loc=f.loc())


def r5_random_chance(ctx):
    """K6: evaluate() draws exactly once, `gen_bool` with the component's own configured p from the state's generator, and
    answers what was drawn"""
    F = ctx.facts
    adt = CC + "RandomChance"
    fn = F.method(adt, "evaluate", COND)
    pi = F.field_index(adt, "p")
    bad = []
    for drawn in (True, False):
        draws = []

        def gb(interp, env, f, args, drawn=drawn):
            draws.append((load(interp, env, args[0]), load(interp, env, args[1])))
            return drawn
        def bern_new(interp, env, f, args):
            from absint import ok
            return ok(Sym("bernoulli-of", {0: load(interp, env, args[0])}))

        def bern_sample(interp, env, f, args, drawn=drawn):
            # `Bernoulli::new(p).unwrap().sample(rng)` / `rng.sample(Bernoulli::new(p).unwrap())` is the body of `gen_bool(p)`
            d_, r_ = (load(interp, env, args[0]), load(interp, env, args[1])) if f.get("name") == "sample" and f.get("key", "").startswith("rand::distributions") else (load(interp, env, args[1]), load(interp, env, args[0]))
            if isinstance(d_, Sym) and d_.tag == "bernoulli-of":
                draws.append((r_, d_.fields.get(0)))
                return drawn
            return TOP
        table = {"rand::rng::Rng::gen_bool": gb, "mahf::state::State::random_mut": Sym("state-rng"), "rand::distributions::bernoulli::Bernoulli::new": bern_new,
                 "rand::distributions::distribution::Distribution::sample": bern_sample, "rand::rng::Rng::sample": bern_sample}
        it = install(Interp(fn.body, chain(mk_oracle(table), coll_oracle, std_oracle), [Sym("self", {pi: Sym("field:p")}), Sym("problem"), Sym("state")], facts=F, max_visits=6))
        for p_ in it.run():
            if p_.end != "return" or not (isinstance(p_.ret, Agg) and p_.ret.variant == "Ok") or p_.ret.fields[0] is not drawn:
                bad.append((drawn, "answers %s %s" % (p_.end, p_.ret)))
        if len(draws) != 1 or draws[0][0] != Sym("state-rng") or draws[0][1] != Sym("field:p"):
            bad.append((drawn, "draws %s; expected exactly one gen_bool(self.p) from the state's generator" % [(str(a), str(b)) for a, b in draws]))
    ctx.check(not bad, "C10.R5", fn.key, "gen_bool-of-own-p", "when the generator draws %s: RandomChance %s" % (bad[0] if bad else ("", "")), loc=fn.loc())


def r6_logical(ctx):
    F = ctx.facts
    LG = "mahf::conditions::logical::"
    n = 0
    for nm, comb in (("And", all), ("Or", any)):
        fn = F.method(LG + nm, "evaluate", COND)
        bad = []
        for k in range(0, 4):
            for outs in itertools.product((True, False), repeat=k):
                counts = {}

                def ev(interp, env, f, args, outs=outs):
                    c = load(interp, env, args[0])
                    i = int(c.tag.split(":")[1]) if isinstance(c, Sym) and c.tag.startswith("cond:") else -1
                    counts[i] = counts.get(i, 0) + 1
                    return ok(outs[i]) if 0 <= i < len(outs) else TOP
                me = Agg("adt", LG + nm, nm, [Vec("ops")])
                home = 10000
                it = install(Interp(fn.body, chain(mk_oracle({COND + "::evaluate": ev}), coll_oracle, std_oracle), [Ref(home, [], frame="root"), Sym("problem"), Sym("state")], facts=F, max_visits=10))
                it.extra_env = {home: me}
                it.init_state = {"heap": {"ops": tuple(Sym("cond:%d" % i, boxlike=True) for i in range(k))}, "next_vec": 0}
                n += 1
                for p in it.run():
                    want = comb(outs)
                    if p.end != "return" or not (isinstance(p.ret, Agg) and p.ret.variant == "Ok") or p.ret.fields[0] is not want:
                        bad.append((list(outs), "answers %s %s, expected %s" % (p.end, p.ret, want)))
                if any(counts.get(i, 0) != 1 for i in range(k)) or any(i not in range(k) for i in counts):
                    bad.append((list(outs), "evaluates its operands %s times (each exactly once is required)" % [counts.get(i, 0) for i in range(k)]))
        ctx.check(not bad, "C10.R6", fn.key, "every-operand-once-and-" + ("all" if nm == "And" else "any"), "operand outcomes %s: %s %s" % (bad[0][0] if bad else "", nm, bad[0][1] if bad else ""),
                  detail="all outcome vectors of 0..3 operands", loc=fn.loc())
        # an operand error is propagated
        def ev_err(interp, env, f, args):
            return err(Sym("boom"))
        home = 10000
        it = install(Interp(fn.body, chain(mk_oracle({COND + "::evaluate": ev_err}), coll_oracle, std_oracle), [Ref(home, [], frame="root"), Sym("problem"), Sym("state")], facts=F, max_visits=10))
        it.extra_env = {home: Agg("adt", LG + nm, nm, [Vec("ops")])}
        it.init_state = {"heap": {"ops": (Sym("cond:0", boxlike=True),)}, "next_vec": 0}
        ends = {(p.end, p.ret.variant if isinstance(p.ret, Agg) else None) for p in it.run()}
        ctx.check(ends == {("return", "Err")}, "C10.R6", fn.key, "operand-error-propagates", "a failing operand yields %s" % sorted(map(str, ends)), loc=fn.loc())
    # init / require reach every operand exactly once, in order, and stop at / report the first failure
    for nm in ("And", "Or", "Not"):
        for phase in ("init", "require"):
            fn = F.method(LG + nm, phase, COND)
            bad = []
            for k in ((1,) if nm == "Not" else range(0, 4)):
                for fail in [None] + list(range(k)):
                    seen = []

                    def ph(interp, env, f, args, fail=fail):
                        c = load(interp, env, args[0])
                        i = int(c.tag.split(":")[1]) if isinstance(c, Sym) and c.tag.startswith("cond:") else -1
                        seen.append(i)
                        return err(Sym("boom")) if i == fail else ok(Agg("tuple", None, None, []))
                    ops = tuple(Sym("cond:%d" % i, boxlike=True) for i in range(k))
                    home = 10000
                    it = install(Interp(fn.body, chain(mk_oracle({COND + "::" + phase: ph}), coll_oracle, std_oracle), [Ref(home, [], frame="root"), Sym("problem"), Sym("state")], facts=F, max_visits=10))
                    it.extra_env = {home: Agg("adt", LG + nm, nm, [ops[0] if nm == "Not" else Vec("ops")])}
                    it.init_state = {"heap": {"ops": ops}, "next_vec": 0}
                    n += 1
                    outs = [(p.end, p.ret.variant if isinstance(p.ret, Agg) else None) for p in it.run()]
                    want_seen = list(range(k)) if fail is None else list(range(fail + 1))
                    if outs != [("return", "Ok" if fail is None else "Err")] or seen != want_seen:
                        bad.append((k, fail, "ends %s after reaching operands %s; expected %s after %s" % (outs, seen, "Ok" if fail is None else "Err", want_seen)))
            ctx.check(not bad, "C10.R6", fn.key, phase + "-reaches-every-operand", "%s operand(s), operand %s failing: %s::%s %s" % ((bad[0][0], bad[0][1], nm, phase, bad[0][2]) if bad else ("", "", nm, phase, "")), loc=fn.loc())
    fn = F.method(LG + "Not", "evaluate", COND)
    bad = []
    for v in (True, False):
        it = Interp(fn.body, chain(mk_oracle({COND + "::evaluate": ok(v)}), std_oracle), [Sym("self", {0: Sym("inner", boxlike=True)}), Sym("problem"), Sym("state")], facts=F)
        for p in it.run():
            if p.end != "return" or not (isinstance(p.ret, Agg) and p.ret.variant == "Ok") or p.ret.fields[0] is not (not v):
                bad.append((v, "%s %s" % (p.end, p.ret)))
    ctx.check(not bad, "C10.R6", fn.key, "negates", "Not(%s) yields %s" % (bad[0] if bad else ("", "")), loc=fn.loc())
    ctx.count("logical_scenarios", n)


def r10_named_constructors(ctx):
    """type level: `LessThanN::iterations(n)` / `::evaluations(n)` / `EveryN::iterations(n)` build the condition over the lens of the
    state their NAME says - the only counters the crate has are Iterations and Evaluations, and the condition type is chosen by the
    instantiation written in the constructor's body (every type mentioned there - locals, generic arguments and return types of its
    calls - is read from the type-checked body)"""
    F = ctx.facts
    WATCHED = {"iterations": "mahf::state::common::Iterations", "evaluations": "mahf::state::common::Evaluations"}
    n = 0
    for f in F.all_fns:
        if f.name not in WATCHED or f.kind not in ("AssocFn", "Fn") or not f.file.startswith("src/conditions/"):
            continue
        n += 1
        seen = set()
        texts = [l["ty"] for l in f.body.locals]
        for g in F.with_closures(f):
            for _b, t in g.body.calls():
                texts.extend(str(x) for x in (t["f"].get("gargs") or []))
                texts.append(t["f"].get("ret") or "")
                texts.append(t["f"].get("self_ty") or "")
        for tx in texts:
            for w in WATCHED.values():
                if re.search(re.escape(w) + r"\b", tx):
                    seen.add(w)
        want = {WATCHED[f.name]}
        ctx.check(seen == want, "C10.R10", f.key, "watches-the-named-counter",
                  "%s builds its condition over %s; its name promises %s" % (f.key.split("::", 2)[-1], sorted(x.split("::")[-1] for x in seen) or "no counter", WATCHED[f.name].split("::")[-1]), loc=f.loc())
    ctx.floor("C10.R10", "conditions' named constructors (iterations / evaluations)", n, 3)


def run(ctx):
    ctx.guard("C10.INIT", "init installs the configured state", lambda: __import__("initspec").check_for(ctx, "C10"))
    ctx.guard("C10.K17", "constructor fidelity", lambda: __import__("ctor").check_for(ctx, "C10", 22))
    ctx.guard("C10.R1", "LessThanN", lambda: r1_less_than_n(ctx))
    ctx.guard("C10.R2", "EveryN", lambda: r2_every_n(ctx))
    ctx.guard("C10.R3", "OptimumReached", lambda: r3_optimum_reached(ctx))
    ctx.guard("C10.R4", "ChangeOf", lambda: r4_change_of(ctx))
    ctx.guard("C10.R5", "RandomChance", lambda: r5_random_chance(ctx))
    ctx.guard("C10.R6", "And/Or/Not", lambda: r6_logical(ctx))
    ctx.guard("C10.R7", "ChangeOf memory key", lambda: r7_memory_key(ctx))
    ctx.guard("C10.R8", "lenses observe the state they name", lambda: r8_lenses(ctx))
    ctx.guard("C10.R10", "named convenience constructors observe the state they are named after", lambda: r10_named_constructors(ctx))
    ctx.guard("C10.R9", "loops make exactly the scripted passes, each loop on its own counter", lambda: __import__("c16").r11_nested_loops(ctx, "C10.R9"))


def r7_memory_key(ctx):
    """`the value it last reported` is per condition: the registry holds ONE value per state type (C01), so the state type
    under which ChangeOf<L> keeps its memory must at least name the lens L.  A key built only from the lens' target type
    (`Previous<<L as AnyLens>::Target>`) is shared by every ChangeOf whose lens has that target type (iterations and
    evaluations are both u32): each then compares against what ANOTHER condition last reported."""
    import re
    F = ctx.facts
    adt = CC + "ChangeOf"
    n = 0
    for mname in ("init", "evaluate"):
        fn = F.method(adt, mname, COND)
        gen = [p["name"] for p in (fn.generics or {}).get("params", []) if p.get("kind") != "lifetime"]
        # the lens parameter of the impl: the one ChangeOf is instantiated with
        m = re.match(r".*ChangeOf<(\w+)>$", fn.impl_self_ty or "")
        lens = m.group(1) if m else None
        if lens is None:
            raise AnchorMissing("ChangeOf<L> impl header not recognised: %s" % fn.impl_self_ty)
        for g in F.with_closures(fn):
            for bb, t in g.body.calls():
                ff = t["f"]
                if not ff.get("key", "").startswith("mahf::state::registry::StateRegistry::") and not ff.get("key", "").startswith("mahf::state::State::"):
                    continue
                for ty in (ff.get("gargs") or [])[:1]:
                    if "Previous" not in ty and lens not in re.findall(r"\w+", ty):
                        continue
                    n += 1
                    bare = re.sub(r"<%s as [^>]*>::\w+" % lens, "", ty)     # drop projections `<L as Trait>::Assoc`
                    names_lens = lens in re.findall(r"\w+", bare)
                    ctx.check(names_lens, "C10.R7", fn.key, "memory-keyed-by-lens",
                              "%s keeps the last reported value under %s, which does not name the lens %s itself: every ChangeOf whose lens has the same target type shares this one value"
                              % (mname, ty, lens), loc=g.loc(t.get("line")))
    ctx.floor("C10.R7", "state accesses of ChangeOf", n, 2)


def r8_lenses(ctx):
    """K6: the conditions (and mappings, loggers) observe the state through lenses.  ValueOf<T> / IdLens<T>: get_ref / get_mut
    hand out exactly the registry's guard for the lens' OWN T (shared resp. exclusive family), get is a clone of it, a missing T
    is an Err; `assign` stores the value through get_mut; PopulationSizeLens maps the population stack to the size of its TOP
    population."""
    F = ctx.facts
    L = "mahf::lens::common::"
    n = 0
    import statemodel
    for adt, whole in ((L + "ValueOf", False), (L + "IdLens", True)):
        for meth, trait in (("get_ref", "mahf::lens::LensRef"), ("get_mut", "mahf::lens::LensMut"), ("get", "mahf::lens::Lens")):
            fn = F.method(adt, meth, trait)
            bad = []
            for present in (True, False):
                # the lens' own T is a cell of the typed store (a newtype around `inner-of-T`); another state type U is there too
                tval = Agg("adt", "T", "T", [Sym("inner-of-T")])
                store = statemodel.Store(F, levels=1, newtypes=("T", "U"))
                store.cell("T", 0, tval if present else statemodel.ABSENT)
                store.cell("U", 0, Agg("adt", "U", "U", [Sym("inner-of-U")]))

                def orc(interp, env, f, args, t, bb, path):
                    k_ = f.get("key", "")
                    if k_ in ("core::ops::deref::Deref::deref", "core::ops::deref::DerefMut::deref_mut") and (f.get("gargs") or [None])[0] == "T" and isinstance(args[0], Ref):
                        return Ref(args[0].local, list(args[0].proj) + [["f", 0, None]], frame=args[0].frame)      # T: Deref - a newtype around its target
                    return TOP
                if meth == "get":
                    gr = F.method(adt, "get_ref", "mahf::lens::LensRef")

                    def orc(interp, env, f, args, t, bb, path, gr=gr, base=orc):
                        if f.get("key") == "mahf::lens::LensRef::get_ref":
                            # `self.get_ref(..)` on `Self: LensRef<P>`: the lens' own implementation
                            outs_ = interp.call_body(gr, list(args))
                            if len(outs_) == 1 and outs_[0][2] == "return":
                                interp.mstate.clear()
                                interp.mstate.update(outs_[0][3])
                                return outs_[0][0]
                            return TOP
                        return base(interp, env, f, args, t, bb, path)
                it = install(Interp(fn.body, chain(orc, store, coll_oracle, std_oracle), [Sym("self"), Sym("problem"), Sym("state")], facts=F,
                                    inline=lambda k: k.startswith("<" + L) or k.startswith(L) or statemodel.inline(k), max_visits=6))
                it.init_state = {}
                store.install(it)
                n += 1
                paths = it.run()
                what = "present" if present else "missing"
                if len(paths) != 1 or paths[0].end != "return" or not isinstance(paths[0].ret, Agg):
                    bad.append((what, "is not decided (%s)" % [(p.end, str(p.ret)[:40]) for p in paths]))
                    continue
                r = paths[0].ret
                if not present:
                    if r.variant != "Err":
                        bad.append((what, "yields %s, expected an Err" % (r,)))
                    continue
                if r.variant != "Ok":
                    bad.append((what, "yields %s although T is there" % (r,)))
                    continue
                got = r.fields[0]
                want_home = store.homes[("T", 0)]
                want_proj = [] if whole else [["f", 0, None]]
                if meth in ("get_ref", "get_mut"):
                    if not (isinstance(got, Ref) and got.local == want_home and [list(x) for x in got.proj] == want_proj):
                        bad.append((what, "hands out %s, expected access to %s of the lens' own T in the state" % (got, "the whole" if whole else "the inner value")))
                else:
                    v = load(it, paths[0].env, got)
                    if str(v) != str(tval if whole else Sym("inner-of-T")):
                        bad.append((what, "yields %s, expected a copy of %s of the lens' own T" % (v, "the whole" if whole else "the inner value")))
            ctx.check(not bad, "C10.R8", fn.key, "own-state-" + meth, "with T %s: %s" % (bad[0] if bad else ("", "")), loc=fn.loc())
    # assign = store through get_mut
    asg = F.fn_opt("<E as mahf::lens::LensAssign>::assign")
    if asg is not None:
        home = 10000
        table = {"mahf::lens::LensMut::get_mut": ok(Ref(home, [], frame="root"))}
        it = install(Interp(asg.body, chain(mk_oracle(table), coll_oracle, std_oracle), [Sym("self"), 2.5, Sym("problem"), Sym("state")], facts=F, max_visits=6))
        it.extra_env = {home: 1.0}      # a plain value (a symbol would stand for the reference itself when it crosses into a closure)
        ps = it.run()
        n += 1
        good = len(ps) == 1 and ps[0].end == "return" and isinstance(ps[0].ret, Agg) and ps[0].ret.variant == "Ok" and ps[0].env.get(home) == 2.5
        ctx.check(good, "C10.R8", asg.key, "assign-stores-through-get_mut", "assign does not store the value into the target of get_mut: %s" % [(p.end, str(p.env.get(home))) for p in ps], loc=asg.loc())
        bad_err = []
        it = install(Interp(asg.body, chain(mk_oracle({"mahf::lens::LensMut::get_mut": err(Sym("missing"))}), coll_oracle, std_oracle), [Sym("self"), 2.5, Sym("problem"), Sym("state")], facts=F, max_visits=6))
        ends = {(p.end, p.ret.variant if isinstance(p.ret, Agg) else None) for p in it.run()}
        ctx.check(ends == {("return", "Err")}, "C10.R8", asg.key, "assign-reports-missing-target", "assign on a missing target yields %s" % sorted(map(str, ends)), loc=asg.loc())
    else:
        ctx.violation("C10.R8", "mahf::lens::LensAssign", "assign", "the blanket LensAssign::assign was not found", kind="anchor-missing")
    # PopulationSizeLens: size of the top population
    from c04 import StackModel
    POP = "mahf::state::common::Populations"
    sf = F.field_index(POP, "stack")
    fn = F.method(L + "PopulationSizeLens", "map", "mahf::lens::LensMap")
    bad = []
    for sizes in ((2,), (3, 1), (0, 2), (1, 0)):
        it = install(Interp(fn.body, chain(StackModel(sf), coll_oracle, std_oracle), [Sym("self"), Sym("populations", {sf: Sym("stack")})], facts=F, inline=lambda k: k.startswith(POP + "::") or statemodel.module_helper(k), max_visits=8))
        it.init_state = {"stack": tuple(Vec("p%d" % i) for i in range(len(sizes))), "next_vec": 0, "heap": {"p%d" % i: tuple(Sym("i%d_%d" % (i, j)) for j in range(k)) for i, k in enumerate(sizes)}}
        n += 1
        for p in it.run():
            if p.end != "return" or p.ret != sizes[-1]:
                bad.append((list(sizes), "yields %s, expected the size of the top population: %d" % (p.ret if p.end == "return" else p.end, sizes[-1])))
    ctx.check(not bad, "C10.R8", fn.key, "size-of-top-population", "population sizes bottom..top %s: PopulationSizeLens %s" % (bad[0] if bad else ("", "")), loc=fn.loc())
    ctx.count("lens_scenarios", n)
