"""C20 — chemical-reaction steps conserve energy and keep molecules aligned."""
import itertools

from core import expr_str, strip, subexprs, AnchorMissing
from absint import Interp, Sym, Agg, Ref, HRef, TOP, some, NONE, ok, err, std_oracle, chain
from collmodel import coll_oracle, Vec, install, load, heap_get
from c04 import StackModel
from c10 import mk_oracle
import c07
import k4

EXPLANATION = (
    "K6 with exact float arithmetic on the four chemical-reaction updates: the population stack (population, "
    "reactants, products), the molecule records and the energy buffer are modelled exactly; every update is evaluated "
    "on energy configurations on both sides of its feasibility test (reaction possible / impossible, decomposition "
    "direct / buffer-assisted / aborted) and with the reactants at different positions of the population. On every "
    "path: the sum of all objective values, kinetic energies and the buffer is unchanged (1e-9 relative), no kinetic "
    "energy or buffer is negative, exactly the reactant and product populations are consumed from the stack, there is "
    "one molecule record per individual afterwards and the records that were not part of the reaction stay at the "
    "index of their individual (identity tracked through each record's hit counter). Every configuration is evaluated twice: with fresh records (remembered best = the current individual) and with records that remember a strictly better individual than the one they hold (the history after an accepted uphill move) - the energy of a reactant is that of the individual it holds NOW. (R5) the base case: ChemicalReactionInit::execute leaves exactly one fresh record (configured kinetic energy, no hits) per individual of the current population, in order, also when records of an earlier initialisation are still stored, and leaves the stack alone. (R6) two molecules holding EQUAL individuals (selection copies them) react as the two distinct molecules they are - adjacent, or with a bystander molecule between them: the update completes, conserves energy, keeps one record per individual and leaves the bystander alone. K4: none of the updates "
    "re-acquires a state type whose guard it still holds. (INIT) init() evaluated with every field of self a distinct symbol inserts exactly the state types of a reviewed table, under the component's own instantiation, each built from exactly the documented field or empty / zero. NOT decided: conservation as an arithmetic identity over "
    "arbitrary floats (only at the sampled configurations), the reaction-selection criteria's probabilities.")
EXPLANATION += " " + '(revised) records and buffer are cells of the typed store; (R2 revised) net stack effect -2 on every Ok path, reaching no deeper than the population underneath.'
ASSUMPTIONS = ["random draws lie in their documented ranges (representatives 0.25 / 0.5 are used)"]

CRO = "mahf::components::misc::cro::"
COMP = "mahf::components::Component"
SO = "mahf::problems::objective::single::SingleObjective"
POP = "mahf::state::common::Populations"
MOL = CRO + "Molecule"


def indiv(tag, value):
    return Agg("adt", c07.IND, "Individual", [Sym("s:" + tag), some(Agg("adt", SO, "SingleObjective", [float(value)]))])


def obj(x):
    return x.fields[1].fields[0].fields[0]


def total_energy(pop, reaction, buffer):
    return sum(obj(x) for x in pop) + sum(m.fields[0] for m in reaction) + buffer


def evaluate(F, fn, me, pop, ke, reactants, products, buffer, fields_mol, best_delta=0.0, stale=None):
    sf = F.field_index(POP, "stack")
    popsym = Sym("populations", {sf: Sym("stack")})
    mols = []
    for i, (x, k) in enumerate(zip(pop, ke)):
        vals = [None] * 4
        vals[fields_mol["kinetic_energy"]] = float(k)
        vals[fields_mol["num_hit"]] = 10 * (i + 1)
        vals[fields_mol["min_hit"]] = 0
        # the record's remembered best: the individual itself on a fresh record, or a strictly better one it held earlier
        # (the history after an accepted uphill collision)
        vals[fields_mol["best"]] = x if not best_delta else indiv("b%d" % i, obj(x) - best_delta)
        mols.append(Agg("adt", MOL, "Molecule", vals))

    def gen_range(interp, env, f, args):
        r = load(interp, env, args[1])
        if isinstance(r, Agg) and len(r.fields) >= 2 and all(isinstance(z, float) for z in r.fields[:2]):
            lo, hi = r.fields[0], r.fields[1]
            return lo + 0.25 * (hi - lo) if r.name.endswith("Inclusive") else lo + 0.5 * (hi - lo)
        return TOP
    # the molecule records and the energy buffer are cells of the typed store (statemodel): whichever accessors the update
    # uses, the verdict is read off what the state holds afterwards
    import statemodel

    def auto(ty):
        if ty.startswith(CRO + "ChemicalReaction<"):
            return {0: Agg("adt", CRO + "ChemicalReaction", "ChemicalReaction", [Vec("reaction")])}
        if ty == CRO + "EnergyBuffer":
            return {0: Agg("adt", CRO + "EnergyBuffer", "EnergyBuffer", [float(buffer)])}
        return None
    store = statemodel.Store(F, levels=1, auto=auto)

    def regs(interp, env, f, args, t, bb, path):
        k_ = f.get("key") or ""
        g_ = ((f.get("cgargs") or f.get("gargs") or [""])[0] or "")
        if k_.startswith("mahf::state::registry::StateRegistry::") and f.get("name") in ("borrow", "borrow_mut"):
            if g_.startswith(POP + "<"):
                return popsym
            if g_ == "mahf::state::random::Random":
                return Sym("rng")
        return TOP
    table = {"mahf::state::State::populations_mut": popsym, "mahf::state::State::populations": popsym, "mahf::state::State::random_mut": Sym("rng"),
             "rand::rng::Rng::gen_range": gen_range, "rand::distributions::uniform::Uniform::new": Sym("uniform"),
             "rand::distributions::distribution::Distribution::sample": 0.5, "rand::rng::Rng::sample": 0.5, "rand::rng::Rng::gen": 0.5,
             "rand::distributions::distribution::Distribution::sample_iter": Agg("repeat", None, None, [0.5]), "rand::rng::Rng::sample_iter": Agg("repeat", None, None, [0.5])}
    it = install(Interp(fn.body, chain(mk_oracle(table), regs, store, StackModel(sf), coll_oracle, std_oracle), [me, Sym("problem"), Sym("state")], facts=F,
                        inline=lambda k: k.startswith(POP + "::") or k.startswith(CRO) or c07.INLINE(k) or statemodel.inline(k), max_visits=12, max_paths=200))
    it.init_state = {"stack": (Vec("pop"), Vec("reactants"), Vec("products")), "next_vec": 0,
                     "heap": {"pop": tuple(pop), "reactants": tuple(reactants), "products": tuple(products), "reaction": tuple(mols)}}
    if stale is not None:       # the initialisation scenario: only the population on the stack, `stale` records left by an earlier run
        it.init_state["stack"] = (Vec("pop"),)
        it.init_state["heap"]["reaction"] = tuple(stale)
    store.install(it)
    return it.run(), store, mols


def records_of(p, store):
    """the molecule records / the buffer the state holds at the end of a path (None: the state does not hold them any more)"""
    rt = [ty for ty in store.types() if ty.startswith(CRO + "ChemicalReaction<")]
    v = store.value(p, rt[0], 0) if rt else Agg("adt", CRO + "ChemicalReaction", "ChemicalReaction", [Vec("reaction")])
    inner = v.fields[0] if isinstance(v, Agg) and v.fields else None
    recs = p.mstate["heap"].get(getattr(inner, "vid", None)) if inner is not None else None
    return recs


def buffer_of(p, store, buffer):
    b = store.value(p, CRO + "EnergyBuffer", 0) if CRO + "EnergyBuffer" in store.types() else Agg("adt", CRO + "EnergyBuffer", "EnergyBuffer", [float(buffer)])
    return b.fields[0] if isinstance(b, Agg) and b.fields else None


def check_paths(paths, home_buf, pop, mols, buffer, label, fields_mol, bad, reactant_idx):
    before = total_energy(pop, mols, float(buffer))
    for p in paths:
        if p.end != "return" or not (isinstance(p.ret, Agg) and p.ret.variant in ("Ok",)):
            bad.append((label, "does not complete (%s %s)" % (p.end, p.ret if p.end == "return" else [e.data for e in p.events if e.kind == "panic"][:1])))
            continue
        st = [getattr(x, "vid", repr(x)) for x in p.mstate.get("stack", ())]
        if st != ["pop"]:
            bad.append((label, "leaves the stack as %s; exactly the reactant and product populations must be consumed" % st))
            continue
        npop = p.mstate["heap"]["pop"]
        nre = records_of(p, home_buf)
        nbuf = buffer_of(p, home_buf, buffer)
        if nre is None:
            bad.append((label, "leaves no molecule records in the state"))
            continue
        if len(npop) != len(nre):
            bad.append((label, "leaves %d individuals but %d molecule records" % (len(npop), len(nre))))
            continue
        try:
            kes = [m.fields[fields_mol["kinetic_energy"]] for m in nre]
            after = sum(obj(x) for x in npop) + sum(kes) + nbuf
        except Exception:
            bad.append((label, "leaves energies the analysis cannot read"))
            continue
        if not all(isinstance(k, float) for k in kes) or not isinstance(nbuf, float):
            bad.append((label, "leaves undecided energies %s / buffer %s" % (kes, nbuf)))
            continue
        if abs(after - before) > 1e-9 * max(1.0, abs(before)):
            bad.append((label, "changes the total energy from %s to %s (buffer %s -> %s)" % (before, after, buffer, nbuf)))
        if any(k < 0 for k in kes) or nbuf < 0:
            bad.append((label, "leaves negative energy: kinetic %s, buffer %s" % (kes, nbuf)))
        # alignment of untouched records: record j (id from its hit counter) still sits with its individual
        for j, (x, m) in enumerate(zip(npop, nre)):
            rid = m.fields[fields_mol["num_hit"]] // 10
            tag = getattr(x.fields[0], "tag", "?")
            if rid >= 1 and (rid - 1) not in reactant_idx:
                if tag != "s:i%d" % (rid - 1):
                    bad.append((label, "record of individual i%d now sits with %s at index %d" % (rid - 1, tag, j)))


def r2_stack_effect(ctx):
    """structural, for all inputs: every Ok path of each update pops exactly two populations and pushes none"""
    import compsum
    F = ctx.facts
    for comp in ("OnWallIneffectiveCollisionUpdate", "DecompositionUpdate", "IntermolecularIneffectiveCollisionUpdate", "SynthesisUpdate"):
        fn = F.method(CRO + comp, "execute", COMP)
        paths = compsum.path_effects(F, fn, CRO + comp)
        # net effect -2 on every Ok path; the population underneath may be taken off and put back (deepest reach -3), nothing
        # deeper is touched - WHAT is left on the stack is decided by C20.R1
        good = bool(paths) and all(net == -2 and -3 <= low <= -2 for (net, low) in paths)
        ctx.check(good, "C20.R2", fn.key, "consumes-exactly-two-populations-on-every-path",
                  "the (net effect, deepest reach) over the Ok paths of %s is %s; every path must shorten the stack by exactly the reactant and product populations (net -2) and reach no deeper than the population underneath (-3)" % (comp, sorted(paths) if paths else paths),
                  detail=str(sorted(paths) if paths else paths), loc=fn.loc())


def run(ctx):
    ctx.guard("C20.REQ", "requirements are checked", lambda: __import__("initspec").check_requires(ctx, "C20"))
    ctx.guard("C20.INIT", "init installs the configured state", lambda: __import__("initspec").check_for(ctx, "C20"))
    ctx.guard("C20.K17", "constructor fidelity", lambda: __import__("ctor").check_for(ctx, "C20", 11))
    ctx.guard("C20.R2", "stack effect", lambda: r2_stack_effect(ctx))
    ctx.guard("C20.R1", "updates", lambda: r1_updates(ctx))
    ctx.guard("C20.R4", "guards", lambda: r4_guards(ctx))
    ctx.guard("C20.R5", "initialisation", lambda: r5_init(ctx))
    ctx.guard("C20.R6", "two molecules holding equal individuals react as the two molecules they are, wherever they sit", lambda: equal_molecules(ctx, "C20.R6"))


def r1_updates(ctx):
    F = ctx.facts
    fields_mol = {f["name"]: f["i"] for f in F.adt(MOL)["variants"][0]["fields"]}
    total = 0
    pop_objs = [5.0, 7.0, 6.0]
    for comp, kind in (("OnWallIneffectiveCollisionUpdate", "onwall"), ("DecompositionUpdate", "decomp"), ("IntermolecularIneffectiveCollisionUpdate", "inter"), ("SynthesisUpdate", "synth")):
        fn = F.method(CRO + comp, "execute", COMP)
        adt = F.adt(CRO + comp)
        bad = []
        flds = {f["name"]: f["i"] for f in adt["variants"][0]["fields"]}
        me = Sym("self", {flds["kinetic_energy_lr"]: 0.2} if "kinetic_energy_lr" in flds else {})
        pop = [indiv("i%d" % i, v) for i, v in enumerate(pop_objs)]
        scen = []
        if kind == "onwall":
            for r in range(3):
                for ke, pv in ((4.0, 3.0), (4.0, pop_objs[r] + 4.0), (0.5, pop_objs[r] + 2.0), (0.0, pop_objs[r])):
                    scen.append(("reactant i%d, kinetic energy %s, product energy %s" % (r, ke, pv), [r], [ke if j == r else 1.0 for j in range(3)], [pop[r]], [indiv("p", pv)], 8.0))
        elif kind == "decomp":
            for r in range(3):
                for ke, pv, buf in ((9.0, (3.0, 4.0), 8.0), (1.0, (4.0, 4.0), 8.0), (1.0, (6.0, 6.0), 8.0), (1.0, (40.0, 40.0), 8.0), (1.0, (6.0, 6.0), 0.0)):
                    scen.append(("reactant i%d, kinetic %s, products %s, buffer %s" % (r, ke, pv, buf), [r], [ke if j == r else 1.0 for j in range(3)], [pop[r]], [indiv("p1", pv[0]), indiv("p2", pv[1])], buf))
        elif kind == "inter":
            for (a, b) in ((0, 1), (2, 0), (1, 2)):
                for kes, pv in (((2.0, 3.0), (5.0, 6.0)), ((0.0, 0.0), (9.0, 9.0)), ((1.0, 0.0), (pop_objs[a] + 0.5, pop_objs[b] + 0.5))):
                    ke = [1.0] * 3
                    ke[a], ke[b] = kes
                    scen.append(("reactants i%d,i%d, kinetic %s, products %s" % (a, b, kes, pv), [a, b], ke, [pop[a], pop[b]], [indiv("p1", pv[0]), indiv("p2", pv[1])], 8.0))
        else:
            for (a, b) in ((0, 1), (2, 0), (1, 2)):
                for kes, pv in (((2.0, 3.0), 4.0), ((0.0, 0.0), 30.0), ((0.5, 0.5), pop_objs[a] + pop_objs[b] + 1.0)):
                    ke = [1.0] * 3
                    ke[a], ke[b] = kes
                    scen.append(("reactants i%d,i%d, kinetic %s, product %s" % (a, b, kes, pv), [a, b], ke, [pop[a], pop[b]], [indiv("p", pv)], 8.0))
        for (label, ridx, ke, reactants, products, buf) in scen:
            for best_delta in (0.0, 1.5):
                lab = label if not best_delta else label + ", every record remembering a best %s below its current individual (after an accepted uphill move)" % best_delta
                paths, home_buf, mols = evaluate(F, fn, me, pop, ke, reactants, products, buf, fields_mol, best_delta)
                total += 1
                check_paths(paths, home_buf, pop, mols, buf, lab, fields_mol, bad, ridx)
        ctx.check(not bad, "C20.R1", fn.key, "energy-conserved-aligned-consumed", "%s: the update %s" % (bad[0] if bad else ("", "")), detail="%d configurations" % (2 * len(scen)), loc=fn.loc())
    ctx.count("reaction_configurations", total)


def r4_guards(ctx):
    out, stats, S = k4.guard_conflicts(ctx.facts)
    mine = [(fn, g, c) for (fn, g, c) in out if fn.file in ("src/components/misc/cro.rs", "src/conditions/cro.rs")]
    seen = set()
    for fn, g, c in mine:
        key = (fn.key, g[0], c[1])
        if key in seen:
            continue
        seen.add(key)
        ctx.violation("C20.R4", fn.key, "%s while %s" % (c[1].split("::")[-1], g[3]), "%s guard on %s is live when %s acquires it %s: %s" % (g[1], g[0], c[1], c[3], c[4]), loc=fn.loc(c[0]))
    if not mine:
        ctx.ok("C20.R4", "cro components", "no-guard-conflict", "")


def equal_molecules(ctx, rule):
    """Two molecules of the container may hold equal individuals (same solution, same objective): selection copies
    them, so a reaction can draw both.  The two-reactant updates must treat them as the two distinct molecules they are."""
    F = ctx.facts
    fields_mol = {f["name"]: f["i"] for f in F.adt(MOL)["variants"][0]["fields"]}
    for comp, products in (("IntermolecularIneffectiveCollisionUpdate", [indiv("p1", 5.0), indiv("p2", 6.0)]), ("SynthesisUpdate", [indiv("p", 4.0)])):
        fn = F.method(CRO + comp, "execute", COMP)
        adt = F.adt(CRO + comp)
        flds = {f["name"]: f["i"] for f in adt["variants"][0]["fields"]}
        me = Sym("self", {flds["kinetic_energy_lr"]: 0.2} if "kinetic_energy_lr" in flds else {})
        pop = [indiv("dup", 5.0), indiv("dup", 5.0), indiv("i2", 6.0)]
        paths, home_buf, mols = evaluate(F, fn, me, pop, [2.0, 3.0, 1.0], [pop[0], pop[1]], products, 8.0, fields_mol)
        bad = []
        for p in paths:
            if p.end != "return" or not (isinstance(p.ret, Agg) and p.ret.variant == "Ok"):
                bad.append("%s %s" % (p.end, p.ret if p.end == "return" else ""))
        ctx.check(not bad, rule, fn.key, "equal-molecules-are-distinct-reactants",
                  "container [dup, dup, i2] (two molecules holding equal individuals), reactants = molecules 0 and 1: the update ends with %s - it locates reactants by VALUE equality (position(|i| i == &r)), so both resolve to index 0 and a valid run fails" % (bad[0] if bad else ""), loc=fn.loc())
        # ... and as the two molecules they ARE, wherever they sit: adjacent, or with a bystander molecule between them
        # (energy conserved, one record per individual, the bystander and its record untouched)
        bad = []
        # (last row: the BYSTANDER holds an individual equal to the reactants too - it is a third molecule and stays)
        for tags, kes, ridx in ((("dup", "dup", "i2"), [2.0, 3.0, 1.0], [0, 1]), (("dup", "i1", "dup"), [2.0, 1.0, 3.0], [0, 2]), (("i0", "dup", "dup"), [1.0, 2.0, 3.0], [1, 2]),
                                (("dup", "dup", "dup"), [2.0, 3.0, 1.0], [0, 1])):
            pop = [indiv(t, 5.0 if t == "dup" else 6.0) for t in tags]
            paths, home_buf, mols = evaluate(F, fn, me, pop, kes, [pop[ridx[0]], pop[ridx[1]]], products, 8.0, fields_mol)
            label = "container %s (the `dup` molecules hold equal individuals), reactants = molecules %d and %d" % (list(tags), ridx[0], ridx[1])
            by = ([t for t in tags if t != "dup"] or ["dup"])[0]
            # (records are matched to individuals by tag: with an equal bystander that alignment is not readable, counts are)
            check_paths(paths, home_buf, pop, mols, 8.0, label, fields_mol, bad, ridx if by != "dup" else [0, 1, 2])
            for p in paths:
                if p.end == "return" and isinstance(p.ret, Agg) and p.ret.variant == "Ok":
                    left = [getattr(x.fields[0], "tag", "?") for x in p.mstate["heap"].get("pop", ())]
                    if left.count("s:" + by) != 1:
                        bad.append((label, "leaves the individuals %s: the bystander molecule %s, which took no part in the reaction, must still be there exactly once" % (left, by)))
        ctx.check(not bad, rule, fn.key, "equal-molecules-wherever-they-sit", "%s: the update %s" % (bad[0] if bad else ("", "")), loc=fn.loc())


def r5_init(ctx):
    """the base case of `one molecule record per individual, in the same order`: ChemicalReactionInit::execute leaves
    exactly one fresh record (configured kinetic energy, no hits, remembering its individual) per individual of the
    current population, in order - also when records of an earlier initialisation are still in the container - and
    leaves the population stack alone"""
    F = ctx.facts
    fields_mol = {f["name"]: f["i"] for f in F.adt(MOL)["variants"][0]["fields"]}
    comp = CRO + "ChemicalReactionInit"
    fn = F.method(comp, "execute", COMP)
    flds = {f["name"]: f["i"] for f in F.adt(comp)["variants"][0]["fields"]}
    me = Sym("self", {flds["kinetic_energy"]: 7.5, flds["buffer"]: 3.0})
    bad = []
    n = 0
    for size in range(0, 4):
        for nstale in (0, 2):
            pop = [indiv("i%d" % i, 5.0 + i) for i in range(size)]
            stale = []
            for j in range(nstale):
                vals = [None] * 4
                vals[fields_mol["kinetic_energy"]] = 99.0
                vals[fields_mol["num_hit"]] = 40 + j
                vals[fields_mol["min_hit"]] = 4
                vals[fields_mol["best"]] = indiv("old%d" % j, 1.0)
                stale.append(Agg("adt", MOL, "Molecule", vals))
            paths, home_buf, _ = evaluate(F, fn, me, pop, [0.0] * size, [], [], 3.0, fields_mol, stale=stale)
            n += 1
            label = "population of %d, %d records left by an earlier initialisation" % (size, nstale)
            for p in paths:
                if p.end != "return" or not (isinstance(p.ret, Agg) and p.ret.variant == "Ok"):
                    bad.append((label, "does not complete (%s %s)" % (p.end, p.ret if p.end == "return" else "")))
                    continue
                st = [getattr(x, "vid", repr(x)) for x in p.mstate.get("stack", ())]
                if st != ["pop"] or [getattr(x.fields[0], "tag", "?") for x in p.mstate["heap"]["pop"]] != ["s:i%d" % i for i in range(size)]:
                    bad.append((label, "changes the population stack (%s)" % st))
                    continue
                recs = records_of(p, home_buf) or ()
                got = []
                for m in recs:
                    if not (isinstance(m, Agg) and m.name == MOL):
                        got.append("?")
                        continue
                    b = m.fields[fields_mol["best"]]
                    got.append((getattr(b.fields[0], "tag", "?") if isinstance(b, Agg) else "?", m.fields[fields_mol["kinetic_energy"]], m.fields[fields_mol["num_hit"]], m.fields[fields_mol["min_hit"]]))
                want = [("s:i%d" % i, 7.5, 0, 0) for i in range(size)]
                if got != want:
                    bad.append((label, "leaves the records %s; expected one fresh record per individual, in order: %s" % (got, want)))
    ctx.count("init_configurations", n)
    ctx.check(not bad, "C20.R5", fn.key, "one-fresh-record-per-individual", "%s: the initialisation %s" % (bad[0] if bad else ("", "")), detail="%d configurations" % n, loc=fn.loc())
