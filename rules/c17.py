"""C17 — simulated-annealing acceptance follows the Metropolis rule."""
import math
import itertools

from core import expr_str, strip, subexprs, AnchorMissing
from absint import Interp, Sym, Agg, Ref, HRef, TOP, some, NONE, ok, err, std_oracle, chain
from collmodel import coll_oracle, Vec, install, load, heap_get
from c04 import StackModel
import statemodel
from c10 import mk_oracle
import c07

EXPLANATION = (
    "K6 on ExponentialAnnealingAcceptance::execute with the population stack modelled exactly (two single-individual "
    "populations on top of a third) and every combination of candidate objective {better, equal, slightly worse, much "
    "worse}, temperature {1e-9, 1, 1e9} and uniform draw {0, 0.5, 0.999999}: the candidate (the TOP population, as "
    "the SA template produces it: selection::All copies the current solution, the perturbation edits the copy) "
    "survives iff it is at least as good or draw < exp(-(f(candidate) - f(current)) / T); in both cases exactly the two "
    "top populations are replaced by the survivor and the rest of the stack is untouched. The template tree (K12) of "
    "`sa` is checked for that convention: All, then only stack-neutral components, evaluation, best-update, the "
    "cooling schedule and then the acceptance, each once per pass. K6 on GeometricCooling::execute (with the mapping "
    "driver inlined): the temperature is read once through its lens, multiplied by alpha and assigned once through "
    "the SAME lens; init of the acceptance inserts Temperature(t_0). (INIT) init() evaluated with every field of self a distinct symbol inserts exactly the state types of a reviewed table, under the component's own instantiation, each built from exactly the documented field or empty / zero. NOT decided: acceptance frequencies over many draws.")
EXPLANATION += " " + '(R1/R3 revised) the temperature is a cell of the typed store (any accessor), the scenario carries a tracked best better than the current solution (the comparison is with the CURRENT one), and the cooling lens is a lens onto one cell: after one execution it holds T * alpha.'
ASSUMPTIONS = ["Rng::gen::<f64>() returns a value in [0, 1)"]

ACC = "mahf::components::replacement::sa::ExponentialAnnealingAcceptance"
TEMP = "mahf::components::replacement::sa::Temperature"
POP = "mahf::state::common::Populations"
SO = "mahf::problems::objective::single::SingleObjective"


def indiv(tag, value):
    return Agg("adt", c07.IND, "Individual", [Sym("s:" + tag), some(Agg("adt", SO, "SingleObjective", [value]))])


def r1_acceptance(ctx):
    F = ctx.facts
    fn = F.method(ACC, "execute", "mahf::components::Component")
    sf = F.field_index(POP, "stack")
    bad = []
    n = 0
    INF = float("inf")
    # (current, candidate) pairs: better / tie / slightly worse / much worse, a worse-by-a-hair pair near zero, ties and
    # improvements at infinity; temperatures from a fully cooled system (0, reachable with alpha = 0 or by underflow) over
    # denormal-small and ordinary to huge ones
    pairs = [(5.0, 4.0), (5.0, 5.0), (5.0, 5.5), (5.0, 50.0), (0.0, 1e-18), (INF, INF), (INF, 7.0)]
    temps = (0.0, 1e-300, 1e-17, 1e-9, 1.0, 1e9)
    for (cur, cand), T, r in itertools.product(pairs, temps, (0.0, 0.5, 0.999999)):
        popsym = Sym("populations", {sf: Sym("stack")})
        table = {"mahf::state::State::populations_mut": popsym, "mahf::state::State::populations": popsym, "mahf::state::State::random_mut": Sym("rng"),
                 "rand::rng::Rng::gen": r,
                 # `gen_bool(p)` = `gen::<f64>() < p`, and rand panics unless 0 <= p <= 1 (NaN included)
                 "rand::rng::Rng::gen_bool": (lambda interp, env, f, args, r=r: (lambda p_: "DIVERGE" if not (isinstance(p_, float) and 0.0 <= p_ <= 1.0) else (r < p_))(load(interp, env, args[1]))),
                 # the history behind the scenario: an earlier uphill move was accepted, so the best individual found so far
                 # (3.0) is better than the current solution (5.0); the rule compares against the CURRENT solution
                 "mahf::state::State::best_objective_value": some(Agg("adt", SO, "SingleObjective", [3.0])),
                 "mahf::state::State::best_individual": some(indiv("best", 3.0)),
                 }
        store = statemodel.Store(F, levels=1, auto=lambda ty, T=T: {0: Agg("adt", TEMP, "Temperature", [T])} if ty == TEMP else None)
        it = install(Interp(fn.body, chain(mk_oracle(table), store, StackModel(sf), coll_oracle, std_oracle), [Sym("self"), Sym("problem"), Sym("state")], facts=F,
                            inline=lambda k: k.startswith(POP + "::") or c07.INLINE(k) or statemodel.inline(k), max_visits=8, max_paths=300))
        it.init_state = {"stack": (Vec("bottom"), Vec("current"), Vec("candidate")), "next_vec": 0,
                         "heap": {"bottom": (indiv("b", 9.0),), "current": (indiv("cur", cur),), "candidate": (indiv("cand", cand),)}}
        store.install(it)
        n += 1
        # the Metropolis rule: at least as good -> always; worse -> with probability exp(-(cand - cur) / T), which is 0 for a
        # fully cooled system
        if cand <= cur:
            accept = True
        elif T == 0.0 or cand == INF:
            accept = False
        else:
            try:
                accept = r < math.exp(-(cand - cur) / T)
            except OverflowError:
                accept = True
        for p in it.run():
            ctxs = (cand, cur, T, r)
            if p.end != "return" or not (isinstance(p.ret, Agg) and p.ret.variant == "Ok"):
                bad.append(ctxs + ("does not complete (%s %s)" % (p.end, p.ret),))
                continue
            # the populations by what they CONTAIN afterwards (the survivor may be moved, or written into the current population in place)
            def content(x):
                items = p.mstate.get("heap", {}).get(getattr(x, "vid", None))
                if items is None:
                    return repr(x)
                return "+".join(getattr(i_.fields[0], "tag", "?")[2:] if isinstance(i_, Agg) and i_.fields else "?" for i_ in items)
            st = [{"b": "bottom", "cur": "current", "cand": "candidate"}.get(content(x), content(x)) for x in p.mstate.get("stack", ())]
            want = ["bottom", "candidate" if accept else "current"]
            if st != want:
                bad.append(ctxs + ("leaves the stack %s; the Metropolis rule %s the candidate, expected %s" % (st, "accepts" if accept else "rejects", want),))
    # documented: `Err` if the two top-most populations do not contain exactly one individual - an error, never a panic
    bad_doc = []
    shapes = [("bottom", "current", "candidate", nc, nk) for nc in (0, 1, 2) for nk in (0, 1, 2) if (nc, nk) != (1, 1)] + [(None, None, "candidate", 1, 1), (None, None, None, 0, 0)]
    for (b_, c_, k_, nc, nk) in shapes:
        popsym = Sym("populations", {sf: Sym("stack")})
        table = {"mahf::state::State::populations_mut": popsym, "mahf::state::State::populations": popsym, "mahf::state::State::random_mut": Sym("rng"),
                 "rand::rng::Rng::gen": 0.5}
        store = statemodel.Store(F, levels=1, auto=lambda ty: {0: Agg("adt", TEMP, "Temperature", [1.0])} if ty == TEMP else None)
        it = install(Interp(fn.body, chain(mk_oracle(table), store, StackModel(sf), coll_oracle, std_oracle), [Sym("self"), Sym("problem"), Sym("state")], facts=F,
                            inline=lambda k: k.startswith(POP + "::") or c07.INLINE(k) or statemodel.inline(k), max_visits=8, max_paths=300))
        stack = tuple(Vec(x) for x in (b_, c_, k_) if x)
        it.init_state = {"stack": stack, "next_vec": 0,
                         "heap": {"bottom": (indiv("b", 9.0),), "current": tuple(indiv("cur%d" % i, 5.0) for i in range(nc)), "candidate": tuple(indiv("cand%d" % i, 4.0) for i in range(nk))}}
        store.install(it)
        n += 1
        for p in it.run():
            what = "%d population(s) on the stack" % len(stack) if len(stack) < 2 else "current population of %d, candidate population of %d individuals" % (nc, nk)
            if p.end in ("panic", "diverge"):
                bad_doc.append((what, "panics"))
            elif p.end != "return" or not (isinstance(p.ret, Agg) and p.ret.variant == "Err"):
                bad_doc.append((what, "ends with %s %s" % (p.end, p.ret)))
    ctx.check(not bad_doc, "C17.R1", fn.key, "malformed-input-is-an-error",
              "%s (documented: `Err` if the two top-most populations do not contain exactly one individual): the acceptance %s" % (bad_doc[0] if bad_doc else ("", "")), loc=fn.loc())
    ctx.check(not bad, "C17.R1", fn.key, "metropolis-rule", "candidate %s vs current %s, T=%s, draw=%s: acceptance %s" % (bad[0] if bad else ("", "", "", "", "")), detail="%d scenarios" % n, loc=fn.loc())
    ctx.count("acceptance_scenarios", n)


def r2_template(ctx):
    import c16
    sums, fns, res, entered = c16.analyse_templates(ctx)
    seen = 0
    for (fn, tree, full, w, final) in res:
        if tree is None or not full or not fn.key.startswith("mahf::heuristics::sa::"):
            continue
        seen += 1
        loops = []

        def find(node):
            if node.kind == "loop":
                loops.append(node)
            for c in node.children:
                find(c)
        find(tree)
        good = False
        why = repr(tree)[:200]
        for lp in loops:
            body = lp.children[0]
            names = [(c.ty or "").split("::")[-1] if c.kind == "leaf" else c.kind for c in body.children]
            tys = [c.ty if c.kind == "leaf" else None for c in body.children]
            if "ExponentialAnnealingAcceptance" not in names:
                continue
            ia = names.index("ExponentialAnnealingAcceptance")
            if "All" not in names[:ia] or names.count("ExponentialAnnealingAcceptance") != 1:
                why = "no selection::All before the acceptance: %s" % names
                continue
            i0 = names.index("All")
            between = tys[i0 + 1:ia]
            neutral = all(t in sums and sums[t][1].paths and all(net == 0 and low >= -1 for (net, low) in sums[t][1].paths) for t in between)
            cool = [i for i, t in enumerate(tys) if t and t.startswith("mahf::components::mapping::")]
            ev = [i for i, t in enumerate(tys) if t in sums and sums[t][1].evaluates]
            good = neutral and len(cool) == 1 and i0 < cool[0] < ia and ev and i0 < ev[0] < ia and names[:i0].count("All") == 0
            why = "loop body %s (stack-neutral between All and acceptance: %s, cooling at %s, evaluation at %s)" % (names, neutral, cool, ev)
        ctx.check(good, "C17.R2", fn.key, "copy-perturb-evaluate-cool-accept", "the SA pass is not `copy, perturb the copy, evaluate, cool once, accept`: %s" % why, detail=why, loc=fn.loc())
    ctx.floor("C17.R2", "SA templates", seen, 2)


def r3_cooling(ctx):
    """K6: the cooling component's lens is a lens onto one cell (every method of the lens family - get, get_ref, get_mut,
    assign - reads / writes that cell); after one execution the cell holds T * alpha (multiplied exactly once) and the
    component returns Ok"""
    F = ctx.facts
    adt = "mahf::components::mapping::sa::GeometricCooling"
    fn = F.method(adt, "execute", "mahf::components::Component")
    ai, li = F.field_index(adt, "alpha"), F.field_index(adt, "lens")
    mapfn = F.fn("<%s as mahf::components::mapping::Mapping>::map" % adt)
    bad = []
    home = 10000
    for alpha, T in ((0.5, 8.0), (0.95, 100.0), (0.0, 3.0)):
        me = Sym("self", {ai: alpha, li: Sym("temperature-lens")})
        other = []

        def lens(interp, env, f, args, kind):
            who = getattr(load(interp, env, args[0]), "tag", "?")
            if who != "temperature-lens":
                other.append((kind, who))
                return TOP
            cell = Ref(home, [], frame="root")
            if kind == "get":
                return ok(interp.read_ref(env, cell))
            if kind in ("get_ref", "get_mut"):
                return ok(cell)
            interp.write_ref(env, cell, load(interp, env, args[1]))
            return ok(Agg("tuple", None, None, []))

        def mapcall(interp, env, f, args):
            outs = interp.call_body(mapfn, args)
            if len(outs) == 1 and outs[0][2] == "return":
                return outs[0][0]
            return TOP
        table = {"mahf::lens::Lens::get": lambda i, e, f, a: lens(i, e, f, a, "get"), "mahf::lens::LensRef::get_ref": lambda i, e, f, a: lens(i, e, f, a, "get_ref"),
                 "mahf::lens::LensMut::get_mut": lambda i, e, f, a: lens(i, e, f, a, "get_mut"), "mahf::lens::LensAssign::assign": lambda i, e, f, a: lens(i, e, f, a, "assign"),
                 "mahf::components::mapping::Mapping::map": mapcall, "mahf::state::State::random_mut": Sym("rng")}
        it = install(Interp(fn.body, chain(mk_oracle(table), coll_oracle, std_oracle), [me, Sym("problem"), Sym("state")], facts=F, inline=lambda k: k == "mahf::components::mapping::mapping", max_visits=8))
        it.extra_env = {home: T}
        paths = it.run()
        if len(paths) != 1 or paths[0].end != "return" or not (isinstance(paths[0].ret, Agg) and paths[0].ret.variant == "Ok"):
            bad.append((alpha, T, "does not complete on a single path (%s)" % [(p.end, str(p.ret)[:40]) for p in paths]))
            continue
        after = paths[0].env.get(home)
        if other:
            bad.append((alpha, T, "reads / writes through %s, not its own lens" % other))
        elif after != T * alpha:
            bad.append((alpha, T, "leaves the temperature at %s, expected T * alpha = %s (multiplied exactly once)" % (after, T * alpha)))
    ctx.check(not bad, "C17.R3", fn.key, "multiply-once-through-one-lens", "alpha=%s, T=%s: cooling %s" % (bad[0] if bad else ("", "", "")), loc=fn.loc())


def run(ctx):
    ctx.guard("C17.R4", "`better` is the numeric order of the objective values (ties incl. -0.0 / +0.0 are ties)", lambda: __import__("c09").r3_total_order(ctx, "C17.R4"))
    ctx.guard("C17.INIT", "init installs the configured state", lambda: __import__("initspec").check_for(ctx, "C17"))
    ctx.guard("C17.K17", "constructor fidelity", lambda: __import__("ctor").check_for(ctx, "C17", 3))
    ctx.guard("C17.R1", "acceptance", lambda: r1_acceptance(ctx))
    ctx.guard("C17.R2", "template", lambda: r2_template(ctx))
    ctx.guard("C17.R3", "cooling", lambda: r3_cooling(ctx))
