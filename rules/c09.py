"""C09 — objective values are never NaN / -inf and are ordered soundly."""
import math
import itertools

from core import expr_str, strip, subexprs, AnchorMissing
from kinds import all_places
from absint import Interp, Sym, Agg, Ref, TOP, some, NONE, std_oracle, chain
from collmodel import coll_oracle, Vec, install

EXPLANATION = (
    "Decided by finite-domain abstract interpretation (K6) over the special floats {NaN, -inf, -MAX, -1, -0.0, +0.0, 1, "
    "MAX, +inf}: (R1) every place in the library build where a SingleObjective / MultiObjective value is constructed "
    "is enumerated; the constructing function is evaluated on every combination of LEGAL inputs (and, for the "
    "converters, on illegal ones): the result must be a legal value or an error, and try_from must accept exactly "
    "the legal values; constants must be legal; (R2) no mutable borrow of, or store into, the inner value exists "
    "outside those constructors; (R3) Ord::cmp on all pairs of legal values (including -0.0 vs +0.0) equals the "
    "numeric order, agrees with partial_cmp and ==, and never panics; (R4) MultiObjective::partial_cmp over all "
    "vectors of length 0..2 over {-0.0, +0.0, 1, +inf} (thorough: also -1 and length 3; including unequal lengths) is the Pareto table: identical => Equal, "
    "dominating => Less, dominated => Greater, trade-off or different length => None. The equality of objective vectors the Pareto comparison starts from is identity of the vectors (lengths included). NOT decided: transitivity "
    "and antisymmetry as universally quantified statements over all floats (they follow from R4 and IEEE order).")
ASSUMPTIONS = ["IEEE-754 semantics of f64 comparison and arithmetic as modelled by the host's floats"]

SO = "mahf::problems::objective::single::SingleObjective"
MO = "mahf::problems::objective::multi::MultiObjective"
LEGAL = [float("inf"), 1.7976931348623157e308, 1.0, 0.0, -0.0, -1.0, -1.7976931348623157e308]
ILLEGAL = [float("nan"), float("-inf")]


def legal(x):
    return isinstance(x, float) and x == x and x != float("-inf")


def fstr(x):
    return "%r" % x


INL = lambda k: k.startswith("mahf::problems::objective::") or k.startswith("<mahf::problems::objective::")


def so(x):
    return Agg("adt", SO, "SingleObjective", [x])


def r1_construction_sites(ctx):
    F = ctx.facts
    sites = {}
    def owner(f, depth=0):
        """the function whose evaluation covers this construction site: closures belong to their parent; a private
        helper of the objective module is covered by (inlined into) the evaluation of each of its callers"""
        while f.kind == "Closure" and f.parent and F.fn_opt(f.parent) is not None:
            f = F.fn_opt(f.parent)
        if depth < 3 and f.vis not in ("pub", "public") and f.kind == "Fn" and INL(f.key) and not f.impl_trait:
            callers = {owner(g, depth + 1).key for (g, b, t) in F.callers_of(lambda c, k=f.key: (c.get("resolved", {}).get("key") or c.get("key")) == k)}
            if callers:
                return [F.fn_opt(k) for k in sorted(callers)]
        return f
    for f in F.all_fns:
        for b in f.body.normal_blocks():
            for st in f.body.stmts(b):
                if st[0] == "=" and st[2][0] == "agg" and st[2][1].get("adt") in (SO, MO):
                    o = owner(f)
                    for g in (o if isinstance(o, list) else [o]):
                        if g is not None:
                            sites.setdefault(g.key, []).append((g, st))
    ctx.floor("C09.R1", "functions constructing objective values", len(sites), 5)
    known_single = {"try_from": "converter", "default": "const"}
    findings = []
    for key, lst in sorted(sites.items()):
        f = lst[0][0]
        adt = lst[0][1][2][1]["adt"]
        nm = f.name
        if f.impl_trait == "core::clone::Clone":
            ctx.ok("C09.R1", key, "copy", "copies an existing objective value")
            continue
        ins = f.sig["inputs"] if f.sig else []
        if adt == SO:
            # parameters: SingleObjective or f64 (legal set), generic scalars (legal set as well: T = f64 is an instance)
            doms = []
            for ty in ins:
                if ty.startswith("&"):
                    ty2 = ty.split(" ")[-1]
                else:
                    ty2 = ty
                if SO in ty2:
                    doms.append([so(x) for x in LEGAL])
                elif ty2 in ("f64", "T", "f32") or f.from_expansion:
                    doms.append(list(LEGAL) + (ILLEGAL if (nm == "try_from" or not f.from_expansion) else []))
                else:
                    doms.append([TOP])
            bad = []
            n = 0
            for combo in itertools.product(*doms) if doms else [()]:
                it = Interp(f.body, chain(coll_oracle, std_oracle), list(combo), facts=F, inline=INL)
                for p in it.run():
                    n += 1
                    if p.end != "return":
                        continue
                    r = p.ret
                    vals = []
                    if isinstance(r, Agg) and r.name == SO:
                        vals = [r.fields[0]]
                    elif isinstance(r, Agg) and r.variant == "Ok" and isinstance(r.fields[0], Agg) and r.fields[0].name == SO:
                        vals = [r.fields[0].fields[0]]
                    for v in vals:
                        if not legal(v):
                            bad.append((combo, v))
                    if nm == "try_from" and combo and isinstance(combo[0], float):
                        x = combo[0]
                        is_ok = isinstance(r, Agg) and r.variant == "Ok"
                        if legal(x) != is_ok:
                            bad.append((combo, "accepts" if is_ok else "rejects"))
                        elif is_ok and not (r.fields[0].fields[0] == x or (x != x)):
                            bad.append((combo, "stores %r" % (r.fields[0].fields[0],)))
            def show(c):
                return ", ".join(fstr(a.fields[0]) if isinstance(a, Agg) else fstr(a) for a in c)
            if bad:
                c, v = bad[0]
                opname = f.impl_trait.split("::")[-1] if f.impl_trait else nm
                findings.append((f, opname, "%s(%s) yields %s" % (nm, show(c), v if isinstance(v, str) else fstr(v) if isinstance(v, float) else "an undecidable value (%s)" % (v,))))
            else:
                ctx.ok("C09.R1", key, "legal-results", "%d evaluations over legal inputs" % n)
        else:
            # MultiObjective: converters over vectors of special floats
            if nm != "try_from":
                findings.append((f, nm, "constructs a MultiObjective outside the checked converters"))
                continue
            bad = []
            n = 0
            pool = [1.0, float("inf"), float("nan"), float("-inf"), -0.0]
            for ln in range(0, 3):
                for vec in itertools.product(pool, repeat=ln):
                    it = install(Interp(f.body, chain(coll_oracle, std_oracle), [Vec("in")], facts=F, inline=INL, max_visits=8))
                    it.init_state = {"heap": {"in": tuple(vec)}, "next_vec": 0}
                    for p in it.run():
                        n += 1
                        if p.end != "return":
                            bad.append((vec, "does not return (%s)" % p.end))
                            continue
                        r = p.ret
                        is_ok = isinstance(r, Agg) and r.variant == "Ok"
                        want_ok = all(legal(x) for x in vec)
                        if is_ok != want_ok:
                            bad.append((vec, "is accepted" if is_ok else "is rejected"))
            if bad:
                findings.append((f, "try_from:" + (ins[0][:20] if ins else ""), "vector %s %s" % (list(bad[0][0]), bad[0][1])))
            else:
                ctx.ok("C09.R1", key + "#" + (ins[0][:24] if ins else ""), "accepts-exactly-legal-vectors", "%d evaluations" % n)
    seen = set()
    for f, opname, msg in findings:
        inst = opname
        if (f.key, inst) in seen:
            continue
        seen.add((f.key, inst))
        ctx.violation("C09.R1", f.key, inst, "%s: an objective value obtainable through the public API is NaN / -inf / undecidable" % msg, loc=f.loc())
    # constants
    for f in F.all_fns:
        pass


def r2_no_mutable_access(ctx):
    F = ctx.facts
    n = 0
    for f in F.all_fns:
        for (bb, pl, c, line) in all_places(f.body, normal_only=False):
            for i, e in enumerate(pl[1]):
                if isinstance(e, list) and e[0] == "f" and len(e) > 3 and e[3] in (SO, MO):
                    n += 1
                    if c in ("write", "refmut", "rawptr"):
                        inside = f.impl_self_adt in (SO, MO) and f.from_expansion
                        ctx.check(inside, "C09.R2", f.key, "inner:%s" % c, "the inner value of an objective is %s in %s" % (c, f.key), loc=f.loc(line))
                    break
    ctx.floor("C09.R2", "projections of the objectives' inner values", n, 5)
    for adt in (SO, MO):
        a = F.adt(adt)
        fld = a["variants"][0]["fields"][0]
        ctx.check(fld["vis"] != "pub" and a["variants"][0]["ctor"] != "pub", "C09.R2", adt, "private-constructor", "the tuple field/constructor of %s is public" % adt)


def r3_total_order(ctx, rule="C09.R3"):
    F = ctx.facts
    cmpf = F.fn("<%s as core::cmp::Ord>::cmp" % SO)
    pcs = F.fns.get("<%s as core::cmp::PartialOrd>::partial_cmp" % SO, [])
    eqs = F.fns.get("<%s as core::cmp::PartialEq>::eq" % SO, [])
    bad = []
    n = 0
    homes = {10001: None, 10002: None}
    for a in LEGAL:
        for b in LEGAL:
            def run(fn):
                it = Interp(fn.body, chain(coll_oracle, std_oracle), [Ref(10001, [], frame="root"), Ref(10002, [], frame="root")], facts=F, inline=INL)
                it.extra_env = {10001: so(a), 10002: so(b)}
                return it.run()
            want = "Less" if a < b else "Greater" if a > b else "Equal"
            n += 1
            for p in run(cmpf):
                if p.end != "return":
                    bad.append((a, b, "cmp does not return (%s)" % p.end))
                elif not (isinstance(p.ret, Agg) and p.ret.name == "core::cmp::Ordering" and p.ret.variant == want):
                    bad.append((a, b, "cmp yields %s, the numeric order is %s" % (p.ret.variant if isinstance(p.ret, Agg) else p.ret, want)))
            for fn in pcs[:1]:
                for p in run(fn):
                    r = p.ret
                    got = r.fields[0].variant if isinstance(r, Agg) and r.variant == "Some" and isinstance(r.fields[0], Agg) else r
                    if p.end != "return" or got != want:
                        bad.append((a, b, "partial_cmp yields %s, the numeric order is %s" % (got, want)))
            for fn in eqs[:1]:
                for p in run(fn):
                    if p.end != "return" or p.ret is not (a == b):
                        bad.append((a, b, "== yields %s" % (p.ret,)))
    ctx.check(not bad, rule, cmpf.key, "numeric-total-order", "for %r vs %r: %s" % (bad[0] if bad else (0, 0, "")), detail="%d ordered pairs of legal values" % n, loc=cmpf.loc())
    ctx.check(len(pcs) == 1 and len(eqs) == 1, rule, SO, "derived-comparisons", "PartialOrd/PartialEq impls of SingleObjective: %d/%d" % (len(pcs), len(eqs)))


def r4_pareto(ctx):
    F = ctx.facts
    fn = F.fn("<%s as core::cmp::PartialOrd>::partial_cmp" % MO)
    bad = []
    n = 0
    # the value grid contains both zeros (numerically equal, different bit patterns) and +inf
    grid = (-0.0, 0.0, 1.0, float("inf")) if ctx.tier != "thorough" else (-1.0, -0.0, 0.0, 1.0, float("inf"))
    vecs = [v for ln in range(0, 3) for v in itertools.product(grid, repeat=ln)]
    # length 3 gives every per-dimension outcome sequence over {better, tie, worse}^3 (e.g. better, tie, better)
    vecs += [v for v in itertools.product((-0.0, 0.0, 1.0) if ctx.tier == "thorough" else (0.0, 1.0), repeat=3)]
    for a in vecs:
        for b in vecs:
            it = install(Interp(fn.body, chain(coll_oracle, std_oracle), [Ref(10001, [], frame="root"), Ref(10002, [], frame="root")], facts=F, inline=INL, max_visits=8))
            it.extra_env = {10001: Agg("adt", MO, "MultiObjective", [Vec("a")]), 10002: Agg("adt", MO, "MultiObjective", [Vec("b")])}
            it.init_state = {"heap": {"a": tuple(a), "b": tuple(b)}, "next_vec": 0}
            if a == b:
                want = "Equal"
            elif len(a) != len(b):
                want = None
            else:
                better = any(x < y for x, y in zip(a, b))
                worse = any(x > y for x, y in zip(a, b))
                want = "Less" if better and not worse else "Greater" if worse and not better else None
            n += 1
            for p in it.run():
                r = p.ret
                got = "?"
                if isinstance(r, Agg) and r.variant == "None":
                    got = None
                elif isinstance(r, Agg) and r.variant == "Some" and isinstance(r.fields[0], Agg):
                    got = r.fields[0].variant
                if p.end != "return" or got != want:
                    bad.append((list(a), list(b), "yields %s, Pareto dominance gives %s" % (got if p.end == "return" else p.end, want)))
    ctx.check(not bad, "C09.R4", fn.key, "pareto-table", "%s vs %s: partial_cmp %s" % (bad[0] if bad else ("", "", "")), detail="%d vector pairs" % n, loc=fn.loc())
    # the equality the Pareto comparison starts from (derived or hand-written): equal iff same length and equal components
    eqs = F.fns.get("<%s as core::cmp::PartialEq>::eq" % MO, [])
    ctx.check(len(eqs) == 1, "C09.R4", MO, "one-equality", "PartialEq impls of MultiObjective: %d" % len(eqs))
    bad = []
    for fe in eqs[:1]:
        for a in vecs:
            for b in vecs:
                it = install(Interp(fe.body, chain(coll_oracle, std_oracle), [Ref(10001, [], frame="root"), Ref(10002, [], frame="root")], facts=F, inline=INL, max_visits=8))
                it.extra_env = {10001: Agg("adt", MO, "MultiObjective", [Vec("a")]), 10002: Agg("adt", MO, "MultiObjective", [Vec("b")])}
                it.init_state = {"heap": {"a": tuple(a), "b": tuple(b)}, "next_vec": 0}
                for p in it.run():
                    if p.end != "return" or p.ret is not (a == b):
                        bad.append((list(a), list(b), "yields %s, expected %s" % (p.ret if p.end == "return" else p.end, a == b)))
        ctx.check(not bad, "C09.R4", fe.key, "equality-is-identity-of-vectors", "%s == %s %s" % (bad[0] if bad else ("", "", "")), loc=fe.loc())


def run(ctx):
    ctx.guard("C09.R1", "construction sites", lambda: r1_construction_sites(ctx))
    ctx.guard("C09.R2", "mutable access", lambda: r2_no_mutable_access(ctx))
    ctx.guard("C09.R3", "total order", lambda: r3_total_order(ctx))
    ctx.guard("C09.R4", "Pareto order", lambda: r4_pareto(ctx))
