// mahf-facts: rustc_private driver that dumps a fact base (items, ADTs, impls, signatures,
// unsafe blocks, and the MIR CFG of every body) of the crates named in MAHF_FACTS_CRATES
// (default "mahf") as one JSON document per compiler process into $MAHF_FACTS_OUT.
// It judges nothing; all rules live in /verif/rules.
#![feature(rustc_private)]
#![allow(clippy::all)]
extern crate rustc_abi;
extern crate rustc_driver;
extern crate rustc_hir;
extern crate rustc_interface;
extern crate rustc_middle;
extern crate rustc_span;

mod json;
use json::J;

use rustc_driver::Compilation;
use rustc_hir::def::DefKind;
use rustc_hir::def_id::{DefId, LOCAL_CRATE};
use rustc_hir::definitions::DefPathData;
use rustc_middle::mir::{
    self, AggregateKind, BasicBlock, Body, Const, Operand, Place, ProjectionElem, Rvalue,
    StatementKind, TerminatorKind,
};
use rustc_middle::ty::{self, GenericArgKind, GenericArgsRef, Ty, TyCtxt, TypingEnv};
use rustc_span::Span;

struct Cb;

fn wanted_crates() -> Vec<String> {
    std::env::var("MAHF_FACTS_CRATES")
        .unwrap_or_else(|_| "mahf".to_string())
        .split(',')
        .map(|s| s.trim().to_string())
        .collect()
}

impl rustc_driver::Callbacks for Cb {
    fn after_analysis<'tcx>(
        &mut self,
        _c: &rustc_interface::interface::Compiler,
        tcx: TyCtxt<'tcx>,
    ) -> Compilation {
        let name = tcx.crate_name(LOCAL_CRATE).as_str().to_string();
        let wanted = wanted_crates();
        if !wanted.contains(&name) && !wanted.contains(&"*".to_string()) {
            return Compilation::Continue;
        }
        let out_dir = match std::env::var("MAHF_FACTS_OUT") {
            Ok(d) => d,
            Err(_) => return Compilation::Continue,
        };
        let doc = Ex { tcx }.crate_doc(&name);
        let is_test = tcx.sess.opts.test;
        let crate_types: Vec<String> =
            tcx.crate_types().iter().map(|c| format!("{:?}", c)).collect();
        let fname = format!(
            "{}/{}-{}{}-{}.json",
            out_dir,
            name,
            crate_types.join("_"),
            if is_test { "-test" } else { "" },
            std::process::id()
        );
        let mut s = String::with_capacity(1 << 24);
        doc.write(&mut s);
        // one write per process
        std::fs::write(&fname, s).expect("cannot write fact file");
        Compilation::Continue
    }
}

struct Ex<'tcx> {
    tcx: TyCtxt<'tcx>,
}

fn s(x: impl Into<String>) -> J {
    J::S(x.into())
}
fn n(x: impl TryInto<i128>) -> J {
    J::N(x.try_into().ok().unwrap_or(-1))
}
macro_rules! obj {
    ($($k:expr => $v:expr),* $(,)?) => { J::O(vec![$(($k.to_string(), $v)),*]) };
}

impl<'tcx> Ex<'tcx> {
    // ---------------------------------------------------------------- paths
    /// stable key: `Adt::method`, `<Adt as Trait>::method`, free path, `parent::{closure#n}`;
    /// independent of generic parameter and lifetime names of the impl header
    fn key(&self, did: DefId) -> String {
        let tcx = self.tcx;
        let dk = tcx.def_key(did);
        if let DefPathData::Closure = dk.disambiguated_data.data {
            if let Some(p) = tcx.opt_parent(did) {
                return format!("{}::{{closure#{}}}", self.key(p), dk.disambiguated_data.disambiguator);
            }
        }
        if matches!(tcx.def_kind(did), DefKind::AssocFn | DefKind::AssocConst { .. } | DefKind::AssocTy) {
            if let Some(imp) = tcx.impl_of_assoc(did) {
                let self_ty = tcx.type_of(imp).instantiate_identity().skip_norm_wip();
                let st = match self_ty.kind() {
                    ty::Adt(d, _) => self.cpath(d.did()),
                    _ => self.ty(self_ty),
                };
                let name = tcx.opt_item_name(did).map(|s| s.as_str().to_string()).unwrap_or_default();
                if tcx.impl_opt_trait_ref(imp).is_some() {
                    let t = tcx.impl_trait_ref(imp).instantiate_identity().skip_norm_wip();
                    // trait arguments that are concrete types distinguish sibling impls (TryFrom<Vec<f64>> vs
                    // TryFrom<&[f64]>); bare type parameters (Component<P>) are left out so keys stay stable
                    let mut targs: Vec<String> = vec![];
                    let mut concrete = false;
                    for a in t.args.iter().skip(1) {
                        if let GenericArgKind::Type(ty) = a.kind() {
                            if !matches!(ty.kind(), ty::Param(_) | ty::Alias(..)) && ty != self_ty {
                                concrete = true;
                            }
                            targs.push(self.ty(ty));
                        }
                    }
                    if concrete {
                        return format!("<{} as {}<{}>>::{}", st, self.cpath(t.def_id), targs.join(", "), name);
                    }
                    return format!("<{} as {}>::{}", st, self.cpath(t.def_id), name);
                }
                return format!("{}::{}", st, name);
            }
        }
        if let Some(p) = tcx.opt_parent(did) {
            // items nested in fns/impl methods (rare): key of parent + name
            if matches!(tcx.def_kind(p), DefKind::Fn | DefKind::AssocFn | DefKind::Closure) {
                let name = tcx.opt_item_name(did).map(|s| s.as_str().to_string()).unwrap_or_default();
                return format!("{}::{}", self.key(p), name);
            }
        }
        self.cpath(did)
    }

    /// canonical path computed by walking parents (so impl blocks can be rendered)
    fn cpath(&self, did: DefId) -> String {
        let tcx = self.tcx;
        let mut chain = vec![did];
        let mut cur = did;
        while let Some(p) = tcx.opt_parent(cur) {
            chain.push(p);
            cur = p;
        }
        chain.reverse();
        let mut out = String::new();
        for d in chain {
            let key = tcx.def_key(d);
            match key.disambiguated_data.data {
                DefPathData::CrateRoot => out = tcx.crate_name(d.krate).as_str().to_string(),
                DefPathData::Impl => out = self.impl_header(d),
                DefPathData::Closure => {
                    out.push_str(&format!("::{{closure#{}}}", key.disambiguated_data.disambiguator))
                }
                DefPathData::TypeNs(sym)
                | DefPathData::ValueNs(sym)
                | DefPathData::MacroNs(sym)
                | DefPathData::LifetimeNs(sym) => {
                    out.push_str("::");
                    out.push_str(sym.as_str());
                    if key.disambiguated_data.disambiguator != 0 {
                        out.push_str(&format!("#{}", key.disambiguated_data.disambiguator));
                    }
                }
                other => out.push_str(&format!(
                    "::{{{:?}#{}}}",
                    other, key.disambiguated_data.disambiguator
                )),
            }
        }
        out
    }

    fn impl_header(&self, impl_did: DefId) -> String {
        let tcx = self.tcx;
        let self_ty = tcx.type_of(impl_did).instantiate_identity().skip_norm_wip();
        if tcx.impl_opt_trait_ref(impl_did).is_some() {
            let tr = tcx.impl_trait_ref(impl_did).instantiate_identity().skip_norm_wip();
            format!("<{} as {}>", self.ty(self_ty), self.trait_ref(tr))
        } else {
            format!("<{}>", self.ty(self_ty))
        }
    }

    fn trait_ref(&self, tr: ty::TraitRef<'tcx>) -> String {
        let mut out = self.cpath(tr.def_id);
        let rest: Vec<String> = tr.args.iter().skip(1).filter_map(|a| self.garg(a)).collect();
        if !rest.is_empty() {
            out.push('<');
            out.push_str(&rest.join(", "));
            out.push('>');
        }
        out
    }

    fn garg(&self, a: ty::GenericArg<'tcx>) -> Option<String> {
        match a.kind() {
            GenericArgKind::Type(t) => Some(self.ty(t)),
            GenericArgKind::Const(c) => Some(format!("{}", c)),
            GenericArgKind::Lifetime(r) => {
                let t = format!("{}", r);
                if t.is_empty() || t == "'_" || t == "'{erased}" {
                    None
                } else {
                    Some(t)
                }
            }
        }
    }

    fn gargs(&self, args: GenericArgsRef<'tcx>) -> Vec<String> {
        args.iter().filter_map(|a| self.garg(a)).collect()
    }

    fn ty(&self, t: Ty<'tcx>) -> String {
        match t.kind() {
            ty::Adt(def, args) => {
                let mut out = self.cpath(def.did());
                let a = self.gargs(args);
                if !a.is_empty() {
                    out.push('<');
                    out.push_str(&a.join(", "));
                    out.push('>');
                }
                out
            }
            ty::Ref(r, inner, m) => {
                let rs = format!("{}", r);
                let rs = if rs.is_empty() || rs == "'_" || rs == "'{erased}" {
                    String::new()
                } else {
                    format!("{} ", rs)
                };
                format!("&{}{}{}", rs, if m.is_mut() { "mut " } else { "" }, self.ty(*inner))
            }
            ty::RawPtr(inner, m) => {
                format!("*{} {}", if m.is_mut() { "mut" } else { "const" }, self.ty(*inner))
            }
            ty::Slice(inner) => format!("[{}]", self.ty(*inner)),
            ty::Array(inner, len) => format!("[{}; {}]", self.ty(*inner), len),
            ty::Tuple(ts) => {
                let v: Vec<String> = ts.iter().map(|x| self.ty(x)).collect();
                if v.len() == 1 {
                    format!("({},)", v[0])
                } else {
                    format!("({})", v.join(", "))
                }
            }
            ty::Param(p) => p.name.as_str().to_string(),
            ty::FnDef(did, args) => {
                let a = self.gargs(args);
                format!("fn{{{}{}}}", self.key(*did), if a.is_empty() { String::new() } else { format!("<{}>", a.join(", ")) })
            }
            ty::Closure(did, _) => format!("closure{{{}}}", self.key(*did)),
            ty::Dynamic(preds, _) => {
                let mut parts = vec![];
                for p in preds.iter() {
                    match p.skip_binder() {
                        ty::ExistentialPredicate::Trait(tr) => {
                            let mut o = self.cpath(tr.def_id);
                            let a = self.gargs(tr.args);
                            if !a.is_empty() {
                                o.push('<');
                                o.push_str(&a.join(", "));
                                o.push('>');
                            }
                            parts.push(o);
                        }
                        ty::ExistentialPredicate::AutoTrait(d) => parts.push(self.cpath(d)),
                        ty::ExistentialPredicate::Projection(_) => {}
                    }
                }
                format!("dyn {}", parts.join(" + "))
            }
            _ => rustc_middle::ty::print::with_no_trimmed_paths!(format!("{}", t)),
        }
    }

    // ---------------------------------------------------------------- spans
    fn span(&self, sp: Span) -> J {
        let sm = self.tcx.sess.source_map();
        let lo = sm.lookup_char_pos(sp.lo());
        let hi = sm.lookup_char_pos(sp.hi());
        let file = match &lo.file.name {
            rustc_span::FileName::Real(r) => match r.local_path() {
                Some(p) => p.to_string_lossy().to_string(),
                None => format!("{:?}", lo.file.name),
            },
            other => format!("{:?}", other),
        };
        let mut o = vec![
            ("file".to_string(), s(file)),
            ("line".to_string(), n(lo.line)),
            ("col".to_string(), n(lo.col.0 + 1)),
            ("end_line".to_string(), n(hi.line)),
        ];
        if sp.from_expansion() {
            let ed = sp.ctxt().outer_expn_data();
            o.push(("exp".to_string(), s(format!("{:?}", ed.kind))));
            // the call site of the outermost expansion, so derive output can be tied to its item
            let cs = sp.source_callsite();
            let clo = sm.lookup_char_pos(cs.lo());
            o.push(("call_line".to_string(), n(clo.line)));
        }
        J::O(o)
    }

    fn line(&self, sp: Span) -> J {
        // [line, expanded?] ; for expanded spans the line of the outermost call site
        let sm = self.tcx.sess.source_map();
        if sp.from_expansion() {
            let cs = sp.source_callsite();
            let ed = sp.ctxt().outer_expn_data();
            let nm = match ed.kind {
                rustc_span::ExpnKind::Macro(_, sym) => sym.as_str().to_string(),
                ref k => format!("{:?}", k),
            };
            J::A(vec![n(sm.lookup_char_pos(cs.lo()).line), s(nm)])
        } else {
            J::A(vec![n(sm.lookup_char_pos(sp.lo()).line)])
        }
    }

    // ---------------------------------------------------------------- crate
    fn crate_doc(&self, name: &str) -> J {
        let tcx = self.tcx;
        let mut adts = vec![];
        let mut impls = vec![];
        let mut traits = vec![];
        let mut fns = vec![];
        let mut statics = vec![];

        let items = tcx.hir_crate_items(());
        for ldid in items.definitions() {
            let did = ldid.to_def_id();
            match tcx.def_kind(did) {
                DefKind::Struct | DefKind::Enum | DefKind::Union => adts.push(self.adt(did)),
                DefKind::Impl { .. } => impls.push(self.impl_(did)),
                DefKind::Trait => traits.push(self.trait_(did)),
                DefKind::Static { .. } => statics.push(obj! {
                    "path" => s(self.cpath(did)),
                    "ty" => s(self.ty(tcx.type_of(did).instantiate_identity().skip_norm_wip())),
                    "span" => self.span(tcx.def_span(did)),
                }),
                _ => {}
            }
        }
        let unsafe_blocks = self.unsafe_blocks();
        for ldid in tcx.mir_keys(()) {
            let did = ldid.to_def_id();
            if !matches!(tcx.def_kind(did), DefKind::Fn | DefKind::AssocFn | DefKind::Closure) {
                continue;
            }
            fns.push(self.func(did));
        }
        // trait methods without bodies are not in mir_keys: list them with their signature
        obj! {
            "crate" => s(name),
            "test" => J::B(tcx.sess.opts.test),
            "crate_types" => J::A(tcx.crate_types().iter().map(|c| s(format!("{:?}", c))).collect()),
            "adts" => J::A(adts),
            "impls" => J::A(impls),
            "traits" => J::A(traits),
            "statics" => J::A(statics),
            "unsafe_blocks" => unsafe_blocks,
            "fns" => J::A(fns),
        }
    }

    fn vis(&self, did: DefId) -> J {
        match self.tcx.visibility(did) {
            ty::Visibility::Public => s("pub"),
            ty::Visibility::Restricted(m) => s(format!("in {}", self.cpath(m))),
        }
    }

    fn adt(&self, did: DefId) -> J {
        let tcx = self.tcx;
        let def = tcx.adt_def(did);
        let mut variants = vec![];
        for v in def.variants().iter() {
            let mut fields = vec![];
            for (i, f) in v.fields.iter().enumerate() {
                fields.push(obj! {
                    "i" => n(i),
                    "name" => s(f.name.as_str()),
                    "ty" => s(self.ty(tcx.type_of(f.did).instantiate_identity().skip_norm_wip())),
                    "vis" => self.vis(f.did),
                });
            }
            variants.push(obj! {
                "name" => s(v.name.as_str()),
                "ctor" => match v.ctor_def_id() { Some(c) => self.vis(c), None => J::Null },
                "fields" => J::A(fields),
            });
        }
        obj! {
            "path" => s(self.cpath(did)),
            "kind" => s(format!("{:?}", tcx.def_kind(did))),
            "vis" => self.vis(did),
            "generics" => self.generics(did),
            "variants" => J::A(variants),
            "span" => self.span(tcx.def_span(did)),
        }
    }

    fn generics(&self, did: DefId) -> J {
        let tcx = self.tcx;
        let g = tcx.generics_of(did);
        let mut params = vec![];
        let mut cur = Some(g);
        let mut stack = vec![];
        while let Some(gg) = cur {
            stack.push(gg);
            cur = gg.parent.map(|p| tcx.generics_of(p));
        }
        stack.reverse();
        for gg in stack {
            for p in &gg.own_params {
                params.push(obj! {
                    "name" => s(p.name.as_str()),
                    "kind" => s(match p.kind {
                        ty::GenericParamDefKind::Lifetime => "lifetime",
                        ty::GenericParamDefKind::Type { .. } => "type",
                        ty::GenericParamDefKind::Const { .. } => "const",
                    }),
                    "index" => n(p.index),
                });
            }
        }
        let preds = tcx.predicates_of(did).instantiate_identity(tcx);
        let mut ps = vec![];
        for (p, _) in preds.into_iter() {
            let p = p.skip_norm_wip();
            ps.push(self.clause(p));
        }
        obj! { "params" => J::A(params), "preds" => J::A(ps) }
    }

    fn clause(&self, p: ty::Clause<'tcx>) -> J {
        match p.kind().skip_binder() {
            ty::ClauseKind::Trait(tp) => obj! {
                "k" => s("trait"),
                "self" => s(self.ty(tp.trait_ref.self_ty())),
                "trait" => s(self.cpath(tp.trait_ref.def_id)),
                "text" => s(self.trait_ref(tp.trait_ref)),
            },
            ty::ClauseKind::TypeOutlives(o) => obj! {
                "k" => s("outlives"),
                "self" => s(self.ty(o.0)),
                "region" => s(format!("{}", o.1)),
            },
            ty::ClauseKind::RegionOutlives(o) => obj! {
                "k" => s("region_outlives"),
                "a" => s(format!("{}", o.0)),
                "b" => s(format!("{}", o.1)),
            },
            ty::ClauseKind::Projection(pp) => obj! {
                "k" => s("projection"),
                "text" => s(rustc_middle::ty::print::with_no_trimmed_paths!(format!("{}", pp))),
            },
            other => obj! {
                "k" => s("other"),
                "text" => s(rustc_middle::ty::print::with_no_trimmed_paths!(format!("{:?}", other))),
            },
        }
    }

    fn impl_(&self, did: DefId) -> J {
        let tcx = self.tcx;
        let self_ty = tcx.type_of(did).instantiate_identity().skip_norm_wip();
        let self_adt = match self_ty.kind() {
            ty::Adt(d, _) => s(self.cpath(d.did())),
            _ => J::Null,
        };
        let (tr, tr_text) = if tcx.impl_opt_trait_ref(did).is_some() {
            let t = tcx.impl_trait_ref(did).instantiate_identity().skip_norm_wip();
            (s(self.cpath(t.def_id)), s(self.trait_ref(t)))
        } else {
            (J::Null, J::Null)
        };
        let mut items = vec![];
        for it in tcx.associated_items(did).in_definition_order() {
            items.push(obj! {
                "name" => s(it.name().as_str()),
                "path" => s(self.cpath(it.def_id)),
                "key" => s(self.key(it.def_id)),
                "kind" => s(format!("{:?}", it.tag())),
            });
        }
        obj! {
            "header" => s(self.impl_header(did)),
            "trait" => tr,
            "trait_text" => tr_text,
            "self_ty" => s(self.ty(self_ty)),
            "self_adt" => self_adt,
            "generics" => self.generics(did),
            "items" => J::A(items),
            "span" => self.span(tcx.def_span(did)),
        }
    }

    fn trait_(&self, did: DefId) -> J {
        let tcx = self.tcx;
        let mut items = vec![];
        for it in tcx.associated_items(did).in_definition_order() {
            let mut o = vec![
                ("name".to_string(), s(it.name().as_str())),
                ("path".to_string(), s(self.cpath(it.def_id))),
                ("key".to_string(), s(self.key(it.def_id))),
                ("kind".to_string(), s(format!("{:?}", it.tag()))),
                ("has_default".to_string(), J::B(it.defaultness(tcx).has_value())),
            ];
            if matches!(it.tag(), ty::AssocTag::Fn) {
                o.push(("sig".to_string(), self.sig(it.def_id)));
            }
            items.push(J::O(o));
        }
        obj! {
            "path" => s(self.cpath(did)),
            "vis" => self.vis(did),
            "generics" => self.generics(did),
            "items" => J::A(items),
            "span" => self.span(tcx.def_span(did)),
        }
    }

    fn sig(&self, did: DefId) -> J {
        let tcx = self.tcx;
        let sig = tcx.fn_sig(did).instantiate_identity().skip_norm_wip().skip_binder();
        obj! {
            "inputs" => J::A(sig.inputs().iter().map(|t| s(self.ty(*t))).collect()),
            "output" => s(self.ty(sig.output())),
            "unsafe" => J::B(!sig.safety().is_safe()),
        }
    }

    fn unsafe_blocks(&self) -> J {
        use rustc_hir::intravisit::{self, Visitor};
        struct V<'a, 'tcx> {
            ex: &'a Ex<'tcx>,
            out: Vec<J>,
        }
        impl<'a, 'tcx> Visitor<'tcx> for V<'a, 'tcx> {
            type NestedFilter = rustc_middle::hir::nested_filter::All;
            fn maybe_tcx(&mut self) -> Self::MaybeTyCtxt {
                self.ex.tcx
            }
            fn visit_block(&mut self, b: &'tcx rustc_hir::Block<'tcx>) {
                if let rustc_hir::BlockCheckMode::UnsafeBlock(src) = b.rules {
                    let owner = self.ex.tcx.hir_enclosing_body_owner(b.hir_id);
                    self.out.push(obj! {
                        "owner" => s(self.ex.key(owner.to_def_id())),
                        "source" => s(format!("{:?}", src)),
                        "span" => self.ex.span(b.span),
                    });
                }
                intravisit::walk_block(self, b);
            }
        }
        let mut v = V { ex: self, out: vec![] };
        self.tcx.hir_walk_toplevel_module(&mut v);
        J::A(v.out)
    }

    // ---------------------------------------------------------------- functions
    fn func(&self, did: DefId) -> J {
        let tcx = self.tcx;
        let kind = tcx.def_kind(did);
        let mut o: Vec<(String, J)> = vec![];
        o.push(("path".into(), s(self.cpath(did))));
        o.push(("key".into(), s(self.key(did))));
        o.push(("kind".into(), s(format!("{:?}", kind))));
        o.push(("name".into(), match tcx.opt_item_name(did) { Some(sym) => s(sym.as_str()), None => J::Null }));
        o.push(("span".into(), self.span(tcx.def_span(did))));
        if matches!(kind, DefKind::Fn | DefKind::AssocFn) {
            o.push(("vis".into(), self.vis(did)));
            o.push(("sig".into(), self.sig(did)));
            o.push(("generics".into(), self.generics(did)));
        }
        if let DefKind::Closure = kind {
            o.push(("parent".into(), s(self.key(tcx.typeck_root_def_id(did)))));
            if let Some(p) = tcx.opt_parent(did) {
                o.push(("lexical_parent".into(), s(self.key(p))));
            }
        }
        if let DefKind::AssocFn = kind {
            if let Some(imp) = tcx.impl_of_assoc(did) {
                let self_ty = tcx.type_of(imp).instantiate_identity().skip_norm_wip();
                o.push(("impl_self_ty".into(), s(self.ty(self_ty))));
                if let ty::Adt(d, _) = self_ty.kind() {
                    o.push(("impl_self_adt".into(), s(self.cpath(d.did()))));
                }
                if tcx.impl_opt_trait_ref(imp).is_some() {
                    let t = tcx.impl_trait_ref(imp).instantiate_identity().skip_norm_wip();
                    o.push(("impl_trait".into(), s(self.cpath(t.def_id))));
                    o.push(("impl_trait_text".into(), s(self.trait_ref(t))));
                }
            } else if let Some(tr) = tcx.trait_of_assoc(did) {
                o.push(("default_of_trait".into(), s(self.cpath(tr))));
            }
        }
        let body = tcx.optimized_mir(did);
        o.push(("mir".into(), self.body(did, body)));
        // promoted constants (`&(0.0..=1.0)`, `&[..]`): small bodies the rules can evaluate
        let proms = tcx.promoted_mir(did);
        if !proms.is_empty() {
            let mut ps = vec![];
            for pb in proms.iter() {
                ps.push(self.body(did, pb));
            }
            o.push(("promoted".into(), J::A(ps)));
        }
        J::O(o)
    }

    fn body(&self, did: DefId, body: &Body<'tcx>) -> J {
        let tcx = self.tcx;
        let mut locals = vec![];
        for (l, d) in body.local_decls.iter_enumerated() {
            locals.push(obj! {
                "i" => n(l.as_usize()),
                "ty" => s(self.ty(d.ty)),
                "mut" => J::B(d.mutability.is_mut()),
            });
        }
        let mut dbg = vec![];
        for v in &body.var_debug_info {
            let val = match &v.value {
                mir::VarDebugInfoContents::Place(p) => self.place(body, *p),
                mir::VarDebugInfoContents::Const(c) => self.constant(did, &c.const_, c.span),
            };
            dbg.push(obj! { "name" => s(v.name.as_str()), "v" => val, "arg" => match v.argument_index { Some(i) => n(i), None => J::Null } });
        }
        let mut blocks = vec![];
        for (_bb, data) in body.basic_blocks.iter_enumerated() {
            let mut stmts = vec![];
            for st in &data.statements {
                match &st.kind {
                    StatementKind::Assign(b) => {
                        let (pl, rv) = &**b;
                        stmts.push(J::A(vec![
                            s("=") ,
                            self.place(body, *pl),
                            self.rvalue(did, body, rv),
                            self.line(st.source_info.span),
                        ]));
                    }
                    StatementKind::SetDiscriminant { place, variant_index } => {
                        stmts.push(J::A(vec![
                            s("setdiscr"),
                            self.place(body, **place),
                            n(variant_index.as_usize()),
                            self.line(st.source_info.span),
                        ]));
                    }
                    StatementKind::StorageDead(l) => {
                        stmts.push(J::A(vec![s("dead"), n(l.as_usize())]));
                    }
                    StatementKind::Intrinsic(i) => {
                        stmts.push(J::A(vec![s("intrinsic"), s(format!("{:?}", i)), self.line(st.source_info.span)]));
                    }
                    _ => {}
                }
            }
            let term = data.terminator();
            blocks.push(obj! {
                "cleanup" => J::B(data.is_cleanup),
                "s" => J::A(stmts),
                "t" => self.terminator(did, body, term),
            });
        }
        obj! {
            "argc" => n(body.arg_count),
            "locals" => J::A(locals),
            "dbg" => J::A(dbg),
            "blocks" => J::A(blocks),
            "spread_arg" => match body.spread_arg { Some(l) => n(l.as_usize()), None => J::Null },
        }
        .also(|_| { let _ = tcx; })
    }

    fn bb(&self, b: BasicBlock) -> J {
        n(b.as_usize())
    }

    fn unwind(&self, u: &mir::UnwindAction) -> J {
        match u {
            mir::UnwindAction::Cleanup(b) => self.bb(*b),
            _ => J::Null,
        }
    }

    fn terminator(&self, did: DefId, body: &Body<'tcx>, t: &mir::Terminator<'tcx>) -> J {
        let line = self.line(t.source_info.span);
        match &t.kind {
            TerminatorKind::Goto { target } => obj! { "k" => s("goto"), "target" => self.bb(*target) },
            TerminatorKind::SwitchInt { discr, targets } => {
                let mut ts = vec![];
                for (v, b) in targets.iter() {
                    ts.push(J::A(vec![J::N(v as i128), self.bb(b)]));
                }
                obj! {
                    "k" => s("switch"),
                    "discr" => self.operand(did, body, discr),
                    "discr_ty" => s(self.ty(discr.ty(&body.local_decls, self.tcx))),
                    "targets" => J::A(ts),
                    "otherwise" => self.bb(targets.otherwise()),
                    "line" => line,
                }
            }
            TerminatorKind::Return => obj! { "k" => s("return"), "line" => line },
            TerminatorKind::Unreachable => obj! { "k" => s("unreachable") },
            TerminatorKind::UnwindResume => obj! { "k" => s("resume") },
            TerminatorKind::UnwindTerminate(_) => obj! { "k" => s("terminate") },
            TerminatorKind::Drop { place, target, unwind, .. } => obj! {
                "k" => s("drop"),
                "place" => self.place(body, *place),
                "ty" => s(self.ty(place.ty(&body.local_decls, self.tcx).ty)),
                "target" => self.bb(*target),
                "unwind" => self.unwind(unwind),
                "line" => line,
            },
            TerminatorKind::Assert { cond, expected, msg, target, unwind } => obj! {
                "k" => s("assert"),
                "cond" => self.operand(did, body, cond),
                "expected" => J::B(*expected),
                "msg" => s(assert_kind(msg)),
                "target" => self.bb(*target),
                "unwind" => self.unwind(unwind),
                "line" => line,
            },
            TerminatorKind::Call { func, args, destination, target, unwind, .. } => {
                let fty = func.ty(&body.local_decls, self.tcx);
                let callee = match fty.kind() {
                    ty::FnDef(cd, cargs) => self.callee(did, *cd, cargs),
                    ty::FnPtr(..) => obj! { "kind" => s("fnptr"), "op" => self.operand(did, body, func) },
                    _ => obj! { "kind" => s("other"), "ty" => s(self.ty(fty)), "op" => self.operand(did, body, func) },
                };
                obj! {
                    "k" => s("call"),
                    "f" => callee,
                    "args" => J::A(args.iter().map(|a| self.operand(did, body, &a.node)).collect()),
                    "arg_tys" => J::A(args.iter().map(|a| s(self.ty(a.node.ty(&body.local_decls, self.tcx)))).collect()),
                    "dest" => self.place(body, *destination),
                    "target" => match target { Some(b) => self.bb(*b), None => J::Null },
                    "unwind" => self.unwind(unwind),
                    "line" => line,
                }
            }
            TerminatorKind::FalseEdge { real_target, .. } => obj! { "k" => s("goto"), "target" => self.bb(*real_target) },
            TerminatorKind::FalseUnwind { real_target, .. } => obj! { "k" => s("goto"), "target" => self.bb(*real_target) },
            other => obj! { "k" => s("other"), "text" => s(format!("{:?}", other)) },
        }
    }

    fn callee(&self, caller: DefId, cd: DefId, cargs: GenericArgsRef<'tcx>) -> J {
        let tcx = self.tcx;
        let mut o: Vec<(String, J)> = vec![];
        o.push(("kind".into(), s("def")));
        o.push(("path".into(), s(self.cpath(cd))));
        o.push(("key".into(), s(self.key(cd))));
        o.push(("name".into(), match tcx.opt_item_name(cd) { Some(sym) => s(sym.as_str()), None => J::Null }));
        o.push(("gargs".into(), J::A(self.gargs(cargs).into_iter().map(s).collect())));
        if matches!(tcx.def_kind(cd), DefKind::AssocFn) {
            if let Some(tr) = tcx.trait_of_assoc(cd) {
                o.push(("trait".into(), s(self.cpath(tr))));
                if let Some(a0) = cargs.iter().next() {
                    if let GenericArgKind::Type(t) = a0.kind() {
                        o.push(("self_ty".into(), s(self.ty(t))));
                    }
                }
            } else if let Some(imp) = tcx.impl_of_assoc(cd) {
                let st = tcx.type_of(imp).instantiate(tcx, cargs).skip_norm_wip();
                o.push(("self_ty".into(), s(self.ty(st))));
                if let ty::Adt(d, _) = st.kind() {
                    o.push(("self_adt".into(), s(self.cpath(d.did()))));
                }
                if tcx.impl_opt_trait_ref(imp).is_some() {
                    let t = tcx.impl_trait_ref(imp).instantiate_identity().skip_norm_wip();
                    o.push(("trait".into(), s(self.cpath(t.def_id))));
                }
            }
        }
        // resolution of trait-method calls to the impl that will run
        let env = TypingEnv::post_analysis(tcx, caller);
        if tcx.trait_of_assoc(cd).is_some() {
            let res = std::panic::catch_unwind(std::panic::AssertUnwindSafe(|| {
                ty::Instance::try_resolve(tcx, env, cd, cargs)
            }));
            if let Ok(Ok(Some(inst))) = res {
                let rd = inst.def_id();
                if rd != cd {
                    let mut r: Vec<(String, J)> = vec![];
                    r.push(("path".into(), s(self.cpath(rd))));
                    r.push(("key".into(), s(self.key(rd))));
                    r.push(("gargs".into(), J::A(self.gargs(inst.args).into_iter().map(s).collect())));
                    r.push(("inst".into(), s(format!("{:?}", inst.def).split('(').next().unwrap_or("").to_string())));
                    o.push(("resolved".into(), J::O(r)));
                }
            }
        }
        let sig = tcx.fn_sig(cd).instantiate(tcx, cargs).skip_norm_wip().skip_binder();
        o.push(("ret".into(), s(self.ty(sig.output()))));
        if !sig.safety().is_safe() {
            o.push(("unsafe".into(), J::B(true)));
        }
        J::O(o)
    }

    fn place(&self, body: &Body<'tcx>, p: Place<'tcx>) -> J {
        let mut proj = vec![];
        for (i, e) in p.projection.iter().enumerate() {
            proj.push(match e {
                ProjectionElem::Deref => s("*"),
                ProjectionElem::Field(f, t) => {
                    let base = mir::PlaceRef { local: p.local, projection: &p.projection[..i] }.ty(&body.local_decls, self.tcx).ty;
                    let base_adt = match base.kind() {
                        ty::Adt(d, _) => s(self.cpath(d.did())),
                        ty::Closure(d, _) => s(format!("closure{{{}}}", self.key(*d))),
                        ty::Tuple(_) => s("(tuple)"),
                        _ => J::Null,
                    };
                    J::A(vec![s("f"), n(f.as_usize()), s(self.ty(t)), base_adt])
                }
                ProjectionElem::Index(l) => J::A(vec![s("i"), n(l.as_usize())]),
                ProjectionElem::ConstantIndex { offset, from_end, .. } => {
                    J::A(vec![s("ci"), n(offset), J::B(from_end)])
                }
                ProjectionElem::Subslice { from, to, from_end } => {
                    J::A(vec![s("sub"), n(from), n(to), J::B(from_end)])
                }
                ProjectionElem::Downcast(name, v) => J::A(vec![
                    s("d"),
                    n(v.as_usize()),
                    match name { Some(sym) => s(sym.as_str()), None => J::Null },
                ]),
                _ => s("?"),
            });
        }
        J::A(vec![n(p.local.as_usize()), J::A(proj)])
    }

    fn operand(&self, did: DefId, body: &Body<'tcx>, op: &Operand<'tcx>) -> J {
        match op {
            Operand::Copy(p) => J::A(vec![s("copy"), self.place(body, *p)]),
            Operand::Move(p) => J::A(vec![s("move"), self.place(body, *p)]),
            Operand::Constant(c) => self.constant(did, &c.const_, c.span),
            #[allow(unreachable_patterns)]
            other => J::A(vec![s("op?"), s(format!("{:?}", other))]),
        }
    }

    fn constant(&self, did: DefId, c: &Const<'tcx>, _sp: Span) -> J {
        let tcx = self.tcx;
        let t = c.ty();
        let mut o: Vec<(String, J)> = vec![];
        o.push(("ty".into(), s(self.ty(t))));
        match t.kind() {
            ty::FnDef(fd, fargs) => {
                o.push(("fn".into(), self.callee(did, *fd, fargs)));
            }
            ty::Bool | ty::Int(_) | ty::Uint(_) | ty::Float(_) | ty::Char => {
                let env = TypingEnv::post_analysis(tcx, did);
                let r = std::panic::catch_unwind(std::panic::AssertUnwindSafe(|| {
                    c.try_eval_scalar_int(tcx, env)
                }));
                if let Ok(Some(si)) = r {
                    let size = si.size();
                    let bits = si.to_bits(size);
                    o.push(("bits".into(), s(format!("{}", bits))));
                    match t.kind() {
                        ty::Float(ft) => {
                            let v = match ft.bit_width() {
                                32 => f32::from_bits(bits as u32) as f64,
                                64 => f64::from_bits(bits as u64),
                                _ => f64::NAN,
                            };
                            o.push(("f".into(), s(format!("{:?}", v))));
                        }
                        ty::Int(_) => {
                            let sh = 128 - size.bits();
                            let v = ((bits as i128) << sh) >> sh;
                            o.push(("v".into(), J::N(v)));
                        }
                        ty::Bool | ty::Uint(_) | ty::Char => {
                            if bits <= i128::MAX as u128 {
                                o.push(("v".into(), J::N(bits as i128)));
                            }
                        }
                        _ => {}
                    }
                }
            }
            ty::Adt(def, _) if def.is_enum() && def.variants().iter().all(|v| v.fields.is_empty()) => {
                // field-less enum constant (`Ordering::Greater`): name the variant
                let env = TypingEnv::post_analysis(tcx, did);
                let r = std::panic::catch_unwind(std::panic::AssertUnwindSafe(|| c.try_eval_scalar_int(tcx, env)));
                if let Ok(Some(si)) = r {
                    let size = si.size();
                    let bits = si.to_bits(size);
                    let mask: u128 = if size.bits() >= 128 { u128::MAX } else { (1u128 << size.bits()) - 1 };
                    for (vi, d) in def.discriminants(tcx) {
                        if (d.val & mask) == (bits & mask) {
                            o.push(("variant".into(), s(def.variant(vi).name.as_str())));
                            o.push(("adt".into(), s(self.cpath(def.did()))));
                            break;
                        }
                    }
                }
            }
            _ => {}
        }
        if let Const::Unevaluated(uv, _) = c {
            if let Some(p) = uv.promoted {
                if uv.def == did {
                    o.push(("promoted".into(), n(p.as_usize())));
                }
            }
        }
        o.push(("text".into(), s(rustc_middle::ty::print::with_no_trimmed_paths!(format!("{}", c)))));
        J::A(vec![s("const"), J::O(o)])
    }

    fn rvalue(&self, did: DefId, body: &Body<'tcx>, rv: &Rvalue<'tcx>) -> J {
        match rv {
            Rvalue::Use(op, ..) => J::A(vec![s("use"), self.operand(did, body, op)]),
            Rvalue::Repeat(op, c) => J::A(vec![s("repeat"), self.operand(did, body, op), s(format!("{}", c))]),
            Rvalue::Ref(_, bk, p) => J::A(vec![
                s("ref"),
                s(match bk {
                    mir::BorrowKind::Shared => "shared",
                    mir::BorrowKind::Fake(_) => "fake",
                    mir::BorrowKind::Mut { .. } => "mut",
                }),
                self.place(body, *p),
            ]),
            Rvalue::RawPtr(k, p) => J::A(vec![s("rawptr"), s(format!("{:?}", k)), self.place(body, *p)]),
            Rvalue::Cast(k, op, t) => J::A(vec![
                s("cast"),
                s(format!("{:?}", k)),
                self.operand(did, body, op),
                s(self.ty(*t)),
                s(self.ty(op.ty(&body.local_decls, self.tcx))),
            ]),
            Rvalue::BinaryOp(op, b) => J::A(vec![
                s("bin"),
                s(format!("{:?}", op)),
                self.operand(did, body, &b.0),
                self.operand(did, body, &b.1),
            ]),
            Rvalue::UnaryOp(op, a) => J::A(vec![s("un"), s(format!("{:?}", op)), self.operand(did, body, a)]),
            Rvalue::Discriminant(p) => J::A(vec![s("discr"), self.place(body, *p)]),
            Rvalue::Aggregate(k, ops) => {
                let kind = match &**k {
                    AggregateKind::Array(t) => obj! { "k" => s("array"), "ty" => s(self.ty(*t)) },
                    AggregateKind::Tuple => obj! { "k" => s("tuple") },
                    AggregateKind::Adt(ad, vi, gargs, _, _) => {
                        let def = self.tcx.adt_def(*ad);
                        obj! {
                            "k" => s("adt"),
                            "adt" => s(self.cpath(*ad)),
                            "variant" => n(vi.as_usize()),
                            "vname" => s(def.variant(*vi).name.as_str()),
                            "gargs" => J::A(self.gargs(gargs).into_iter().map(s).collect()),
                        }
                    }
                    AggregateKind::Closure(cd, _) => obj! { "k" => s("closure"), "closure" => s(self.key(*cd)) },
                    AggregateKind::RawPtr(t, m) => obj! { "k" => s("rawptr"), "ty" => s(self.ty(*t)), "mut" => J::B(m.is_mut()) },
                    other => obj! { "k" => s("other"), "text" => s(format!("{:?}", other)) },
                };
                J::A(vec![s("agg"), kind, J::A(ops.iter().map(|o| self.operand(did, body, o)).collect())])
            }
            Rvalue::CopyForDeref(p) => J::A(vec![s("use"), J::A(vec![s("copy"), self.place(body, *p)])]),
            Rvalue::ThreadLocalRef(d) => J::A(vec![s("tls"), s(self.cpath(*d))]),
            other => J::A(vec![s("rv?"), s(format!("{:?}", other))]),
        }
    }
}

fn assert_kind<'tcx>(m: &mir::AssertKind<Operand<'tcx>>) -> String {
    use mir::AssertKind::*;
    match m {
        BoundsCheck { .. } => "BoundsCheck".into(),
        Overflow(op, ..) => format!("Overflow({:?})", op),
        OverflowNeg(_) => "OverflowNeg".into(),
        DivisionByZero(_) => "DivisionByZero".into(),
        RemainderByZero(_) => "RemainderByZero".into(),
        _ => "Other".into(),
    }
}

trait Also: Sized {
    fn also(self, f: impl FnOnce(&Self)) -> Self {
        f(&self);
        self
    }
}
impl Also for J {}

fn main() {
    // RUSTC_WORKSPACE_WRAPPER: argv = [me, rustc, args…]
    let mut args: Vec<String> = std::env::args().collect();
    if args.len() > 1 && (args[1].ends_with("rustc") || args[1].contains("rustc")) && !args[1].starts_with('-') {
        args.remove(1);
    }
    rustc_driver::run_compiler(&args, &mut Cb);
}
