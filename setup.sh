#!/bin/bash
# Offline setup: build the fact extractor (rustc_private driver, nightly) and warm the dependency cache
# of the analysis target dir with one extraction of /repo's current tree.
set -e
cd "$(dirname "$0")"
export CARGO_NET_OFFLINE=true
(cd extractor && cargo build --release --offline)
python3 - <<'PY'
import sys
sys.path.insert(0, "rules")
import engine
th, files = engine.extract(all_targets=False)
print("facts for tree", th, "->", files)
PY
