//! Positive and negative examples for the expected-zero rules of /verif/rules.
//! Analysed by the same rustc driver as /repo; every `bad_*` function must be reported by its rule
//! on every run, every `good_*` function must not (a rule matching zero sites must not pass vacuously).
#![allow(dead_code, unused_variables, unused_mut, clippy::all)]

pub mod k4 {
    //! K4 dynamic-borrow typestate
    use mahf::state::common::{Evaluations, Iterations};
    use mahf::state::random::Random;
    use mahf::{ExecResult, Problem, State};
    use rand::Rng;

    pub fn bad_double_random_mut<P: Problem>(state: &mut State<P>) -> f64 {
        let mut rng = state.random_mut();
        let a: f64 = rng.gen();
        let b: f64 = state.random_mut().gen();
        a + b + rng.gen::<f64>()
    }

    pub fn bad_shared_then_excl<P: Problem>(state: &mut State<P>) -> usize {
        let pops = state.populations();
        let n = pops.len();
        state.populations_mut().push(Vec::new());
        n + pops.len()
    }

    fn helper_draws<P: Problem>(state: &State<P>) -> f64 {
        state.random_mut().gen()
    }

    pub fn bad_guard_across_helper<P: Problem>(state: &mut State<P>) -> f64 {
        let mut rng = state.random_mut();
        let x = helper_draws(state);
        x + rng.gen::<f64>()
    }

    pub fn bad_try_borrow_while_excl<P: Problem>(state: &mut State<P>) -> ExecResult<u32> {
        let mut it = state.borrow_value_mut::<Iterations>();
        let seen = *state.try_borrow_value::<Iterations>()?;
        *it += 1;
        Ok(seen)
    }

    pub fn bad_set_value_dropped<P: Problem>(state: &mut State<P>) -> u32 {
        let it = state.borrow_value::<Evaluations>();
        state.set_value::<Evaluations>(7);
        *it
    }

    pub fn good_sequential<P: Problem>(state: &mut State<P>) -> f64 {
        let a: f64 = state.random_mut().gen();
        let b: f64 = state.random_mut().gen();
        a + b
    }

    pub fn good_scoped<P: Problem>(state: &mut State<P>) -> f64 {
        let a: f64 = {
            let mut rng = state.random_mut();
            rng.gen()
        };
        a + helper_draws(state)
    }

    pub fn good_explicit_drop<P: Problem>(state: &mut State<P>) -> f64 {
        let mut rng = state.random_mut();
        let a: f64 = rng.gen();
        drop(rng);
        a + state.random_mut().gen::<f64>()
    }

    pub fn good_two_readers<P: Problem>(state: &mut State<P>) -> usize {
        let a = state.populations();
        let b = state.populations();
        a.len() + b.len()
    }

    pub fn good_different_types<P: Problem>(state: &mut State<P>) -> f64 {
        let mut rng = state.random_mut();
        let mut pops = state.populations_mut();
        pops.push(Vec::new());
        rng.gen::<f64>() + *state.borrow_value::<Iterations>() as f64
    }

    pub fn good_conditional_move<P: Problem>(state: &mut State<P>, flag: bool) -> f64 {
        let mut rng = state.random_mut();
        if flag {
            let mut moved = rng;
            let x: f64 = moved.gen();
            drop(moved);
            return x + state.random_mut().gen::<f64>();
        }
        rng.gen()
    }
}
